"""C36 Timelocked instructions run only as approved, after the delay.

Decided (timelock program + gmsol_utils::instruction):
 * exec-gate      : the single CPI of unchecked_execute_instruction (invoke_signed) is dominated by the true edges of
                    store.has_role(approver, timelocked_role(executor.role_name()?))? — approver = header.apporver() of the
                    SAME loaded buffer, None => Err — and of header.is_executable(timelock_config.delay())?; it invokes
                    to_instruction(that buffer, false);
 * executable     : is_executable = Ok(false) when approved_at() is None, else Ok(now >= approved_at (+sat) delay) with
                    now = Clock::unix_timestamp; approved_at() = is_approved().then_some(approved_at); apporver() =
                    optional_address(approver) (None iff equal to one constant);
 * approve        : the three writes of InstructionHeader::approve happen only under !is_approved, approver-slot == const,
                    new approver != const; atomic; approver/approved_at/flags have no other writer; both approve handlers
                    call approve(authority.key()) only behind validate_timelocked_role(ctx, role)?, which demands
                    CpiAuthenticate::only(ctx, timelocked_role(role)); the batch handler also requires header.executor == executor;
 * delay-grows    : TimelockConfig.delay is written only by init and by increase_delay as checked_add(self.delay, delta) (u32);
 * buffer-consumed: ExecuteInstruction / CancelInstruction close the buffer (close = rent_receiver) and bind it with
                    has_one = executor / rent_receiver; the wallet PDA is seeded by the executor; cancel_instructions closes each
                    buffer only behind executor / rent_receiver equality;
 * faithful       : the buffer header fields are written once, from the arguments (program id, executor, lengths), data is a
                    copy of the argument, each stored account is (account.key(), Signer := idx in signers, Writable :=
                    account.is_writable) and on the Signer edge the store is reachable only through wallet == address;
                    to_instruction rebuilds Instruction{program_id, accounts.map(AccountMeta::from).collect(), data.to_vec()} and
                    touches is_signer only under mark_executor_wallet_as_signer for pubkey == wallet; AccountMeta::from maps
                    pubkey/Signer/Writable; InstructionRef's accessors return header.program_id / data / header.num_accounts.
"""
import re

from .. import analyses as A
from .. import anchor
from .. import h_F as H
from ..accounts import AccountsStruct

IB = r"gmsol_timelock::instructions::instruction_buffer::"
HD = r"gmsol_timelock::states::instruction::InstructionHeader::"
LOADED = r"InstructionLoader::load_instruction\(ctx\.accounts\.instruction\)\?"


def _is_pubkey_const(e):
    return e.k == "const" and isinstance(e.a[-1], dict) and "Pubkey" in e.a[-1].get("ty", "")


def run(ctx):
    prog = ctx.prog(["gmsol_timelock", "gmsol_store", "gmsol_utils"])
    ctx.explanation = (
        "Execution is gated on MIR dominance: the only CPI of the execute handler lies under the true edges of the approver's "
        "current role test and of is_executable(delay), both evaluated on the buffer that is then invoked; is_executable, "
        "approve and increase_delay are decided as decision tables / guarded atomic writes with who-may-write over the "
        "timelock program; buffers are closed by Anchor constraints on execute/cancel; the stored instruction is written "
        "from the arguments and rebuilt field by field, the Signer flag being storable only for the executor wallet.")
    ctx.not_decided = (
        "Byte-level equality of the rebuilt instruction (dynamic_access::get/get_mut offsets, bytemuck casts); that the two "
        "promoted Pubkey constants compared in approve()/optional_address are DEFAULT_PUBKEY (promoted MIR constants carry no "
        "value in the facts — only their type and the shape of the guard are checked); Anchor's close/has_one/seeds codegen; "
        "role-gating of the entrypoints themselves (C19).")
    ctx.rule("exec-gate", "invoke_signed only under approver-still-has-role and is_executable(delay) on the same buffer")
    ctx.rule("executable", "is_executable: not approved -> false; else now >= approved_at + delay")
    ctx.rule("approve", "approve writes once, under its three guards, only behind the timelocked-role check")
    ctx.rule("delay-grows", "delay only written by init and as checked_add(delay, delta)")
    ctx.rule("buffer-consumed", "executed / cancelled buffers are closed and bound to executor and rent receiver")
    ctx.rule("faithful", "stored instruction = arguments; rebuilt instruction = stored; Signer only for the executor wallet")
    _exec_gate(ctx, prog)
    _executable(ctx, prog)
    _approve(ctx, prog)
    _delay(ctx, prog)
    _consumed(ctx, prog)
    _faithful(ctx, prog)


def _exec_gate(ctx, prog):
    f = ctx.fn(IB + "unchecked_execute_instruction")
    if not f:
        return
    cpis = [c for c in f.calls if re.search(r"(^|::)(invoke|invoke_signed|invoke_unchecked|invoke_signed_unchecked)$", c.name or "")]
    ctx.ob("exec-gate:one-cpi", len(cpis) == 1, "the handler performs exactly one CPI (%s)" % [c.rshort for c in cpis], where=f.where())
    # canonical renderings: `X!` = the success payload of X however it is unwrapped (`?`, ok_or_else(..)?, let-else, match)
    LD = r"InstructionLoader::load_instruction\(ctx\.accounts\.instruction\)!"
    role_re = (r"^Store::has_role\(AccountLoader::load\(ctx\.accounts\.store\)!, "
               r"InstructionHeader::apporver\(InstructionRef::header\(" + LD + r"\)\)!, "
               r"roles::timelocked_role\(Executor::role_name\(AccountLoader::load\(ctx\.accounts\.executor\)!\)!\)\)!$")
    delay_re = (r"^InstructionHeader::is_executable\(InstructionRef::header\(" + LD + r"\), "
                r"TimelockConfig::delay\(AccountLoader::load\(ctx\.accounts\.timelock_config\)!\)\)!$")
    for c in cpis:
        facts = H.canon_facts(f, c.bb)
        ctx.ob("exec-gate:approver-role", H.has_canon_bool(facts, True, role_re),
               "the CPI is dominated by `store.has_role(header.apporver() [must be Some], timelocked_role(executor.role_name()))` being true "
               "(any branch form; a missing approver / failed lookup never reaches the CPI)", where=f.where(c.line),
               detail=[("%s %s %s" % (a, o, b))[:200] for (o, a, b) in facts])
        ctx.ob("exec-gate:delay", H.has_canon_bool(facts, True, delay_re),
               "the CPI is dominated by `header.is_executable(timelock_config.delay())` being true", where=f.where(c.line))
        # the instruction handed to the CPI is the success payload of to_instruction(<loaded buffer>, false), built inline or bound earlier
        ix = c.arg_expr(0)
        t = H.unwrap_success(ix)
        ok = t is not None and t.k == "call" and t.a[0] == "InstructionAccess::to_instruction" and re.match("^" + LD + "$", H.canon(t.a[1][0])) is not None \
            and str(t.a[1][1]) == "false"
        tis = f.calls_to(r"InstructionAccess::to_instruction$")
        ok = ok and len(tis) == 1
        ctx.ob("exec-gate:invokes-buffered", ok and str(c.arg_expr(1)) == "ctx.remaining_accounts",
               "the invoked instruction is the Ok payload of to_instruction(<the loaded buffer>, false) with the caller's remaining accounts: %s" % H.canon(ix)[:140],
               where=f.where(c.line))
        seeds = H.canon(c.arg_expr(2))
        ctx.ob("exec-gate:signer-seeds", re.search(r"ExecutorWalletSigner::new\(Key::key\(ctx\.accounts\.executor\), AccountLoader::load\(ctx\.accounts\.executor\)!\.wallet_bump\)", seeds) is not None,
               "the only PDA signer is the executor wallet of ctx.accounts.executor", where=f.where(c.line))
    li = f.calls_to(r"InstructionLoader.*::load_instruction$|::load_instruction$")
    ctx.ob("exec-gate:one-buffer", len(li) == 1 and str(li[0].arg_expr(0)) == "ctx.accounts.instruction",
           "the buffer is loaded once, from ctx.accounts.instruction (%d loads)" % len(li), where=f.where())
    # role name helper
    tr = ctx.fn(r"gmsol_timelock::roles::timelocked_role")
    if tr:
        ex = [str(e) for _, _, e in tr.exits()]
        pre = ctx.const(r"gmsol_timelock::roles::TIMELOCKED")
        ok = len(ex) == 1 and re.match(r"^(\[T\]|\[V\]|Concat|slice)::concat\(array\{0: roles::TIMELOCKED, 1: role\}\)$", ex[0]) is not None
        ctx.ob("exec-gate:timelocked-role", ok and pre is not None, "timelocked_role(role) = [TIMELOCKED, role].concat(): %s" % ex, where=tr.where())


def _executable(ctx, prog):
    f = ctx.fn(HD + "is_executable")
    if f:
        tab = {}
        for p in A.decision_table(f):
            if not A.feasible(p) or p["diverges"] or p["ret"] is None:
                continue
            arm = None
            for c, lab, _ in p["conds"]:
                if c.k == "discr" and str(c.a[0]) == "InstructionHeader::approved_at(self)":
                    arm = "Some" if lab == 1 else "None"
            if arm:
                tab.setdefault(arm, set()).add(str(p["ret"]))
        def _after_delay(rs):
            # Ok(now >= approved_at (+sat) delay), written either way round; delay widened by `as u64` or u64::from
            if len(rs) != 1:
                return False
            e = rs[0]
            pl = e.a[1][0][1] if e.k == "agg" and e.a[0].endswith("Ok") and e.a[1] else None
            cm = A.as_cmp(pl) if pl is not None else None
            if not cm:
                return False
            op, a, b = cm
            if op in ("<=", "<"):
                op, a, b = A.FLIP[op], b, a
            if op != ">=" or str(a) != "SolanaSysvar::get()?.unix_timestamp":
                return False
            return b.k == "call" and b.a[0] == "i64::saturating_add_unsigned" and str(b.a[1][0]) == "InstructionHeader::approved_at(self)@Some.0" \
                and str(b.a[1][1]) in ("(delay as u64)", "delay")
        tab_e = {}
        for p in A.decision_table(f):
            if not A.feasible(p) or p["diverges"] or p["ret"] is None:
                continue
            arm = None
            for c, lab, _ in p["conds"]:
                if c.k == "discr" and str(c.a[0]) == "InstructionHeader::approved_at(self)":
                    arm = "Some" if lab == 1 else "None"
            if arm and str(p["ret"]) not in [str(x) for x in tab_e.get(arm, [])]:
                tab_e.setdefault(arm, []).append(p["ret"])
        ctx.ob("executable:not-approved", tab.get("None") == {"Result::Ok{0: false}"}, "approved_at() == None -> %s" % sorted(tab.get("None", [])), where=f.where())
        ctx.ob("executable:after-delay", _after_delay(tab_e.get("Some", [])), "approved_at() == Some(t) -> Ok(now >= t +sat delay): %s" % sorted(tab.get("Some", [])), where=f.where())
    g = ctx.fn(HD + "approved_at")
    if g:
        ex = [str(e) for _, _, e in g.exits()]
        ctx.ob("executable:approved-at", ex == ["bool::then_some(InstructionHeader::is_approved(self), self.approved_at)"], "approved_at() = %s" % ex, where=g.where())
    g = ctx.fn(HD + "is_approved")
    if g:
        ex = [str(e) for _, _, e in g.exits()]
        ctx.ob("executable:is-approved", ex == ["InstructionFlagContainer::get_flag(self.flags, InstructionFlag::Approved{})"], "is_approved() = %s" % ex, where=g.where())
    g = ctx.fn(HD + "apporver")
    if g:
        ex = [str(e) for _, _, e in g.exits()]
        ctx.ob("executable:approver", ex == ["pubkey::optional_address(self.approver)"], "apporver() = %s" % ex, where=g.where())
    g = ctx.fn(r"gmsol_utils::pubkey::optional_address")
    if g:
        ok = True
        n = 0
        for bb, k, e in g.exits():
            fs = [(o, a, b) for (o, a, b) in A.cmp_facts(g, bb) if b is not None and str(a) == "pubkey" and _is_pubkey_const(b)]
            n += 1
            if str(e) == "Option::None{}":
                ok = ok and any(o == "==" for o, _, _ in fs)
            elif str(e) == "Option::Some{0: pubkey}":
                ok = ok and any(o == "!=" for o, _, _ in fs)
            else:
                ok = False
        ctx.ob("executable:optional-address", ok and n == 2, "optional_address(p) is None iff p == <Pubkey constant>, else Some(p)", where=g.where())


def _approve(ctx, prog):
    f = ctx.fn(HD + "approve")
    if f:
        sf = [c for c in f.calls if re.search(r"set_flag$", c.name or "")]
        ws = [w for w in A.field_writes(f, r"^self\.") if w["kind"] == "assign"]
        vals = {w["path"]: str(w["rv"]) for w in ws}
        ctx.ob("approve:writes", len(sf) == 1 and [str(sf[0].arg_expr(i)) for i in range(3)] == ["self.flags", "InstructionFlag::Approved{}", "true"] and
               vals == {"self.approved_at": "SolanaSysvar::get()?.unix_timestamp", "self.approver": "approver"},
               "approve sets Approved := true, approved_at := Clock.unix_timestamp, approver := the argument (%s)" % vals, where=f.where())
        sites = [c.bb for c in sf] + [w["bb"] for w in ws]
        g1 = g2 = g3 = bool(sites)
        for bb in sites:
            facts = A.cmp_facts(f, bb)
            g1 = g1 and A.has_bool_fact(facts, False, r"^InstructionHeader::is_approved\(self\)$")
            g2 = g2 and any(o == "==" and str(a) == "self.approver" and _is_pubkey_const(b) for (o, a, b) in facts if b is not None)
            g3 = g3 and any(o == "!=" and str(a) == "approver" and _is_pubkey_const(b) for (o, a, b) in facts if b is not None)
        ctx.ob("approve:guard:not-approved", g1, "every write is under !is_approved()", where=f.where())
        ctx.ob("approve:guard:slot-empty", g2, "every write is under self.approver == <Pubkey constant>", where=f.where())
        ctx.ob("approve:guard:new-not-default", g3, "every write is under approver != <Pubkey constant>", where=f.where())
        H.atomic_update(ctx, "approve:atomic", f)
    n = 0
    for fld in ("approver", "approved_at", "flags"):
        ws = H.field_writers(prog, ["gmsol_timelock"], "states::instruction::InstructionHeader", fld)
        who = sorted(set(w["fn"].short for w in ws))
        n += len(ws)
        ctx.ob("approve:writers:" + fld, who == ["InstructionHeader::approve"], "InstructionHeader.%s is written by %s" % (fld, who), where=f.where() if f else "")
    ctx.floor("approve-writers", n, 3)
    # handlers
    v = ctx.fn(IB + "validate_timelocked_role")
    if v:
        on = v.calls_to(r"CpiAuthenticate::only$")
        ok = len(on) == 1 and str(on[0].arg_expr(0)) == "ctx" and str(on[0].arg_expr(1)) == "roles::timelocked_role(role)"
        if ok:
            ts = H.success_edge(v, on[0])
            oks = [bb for bb, k, e in v.exits() if k == "ok"]
            ok = ts is not None and bool(oks) and all(v.dominates(ts[1], bb) for bb in oks)
        ctx.ob("approve:role-check", ok, "validate_timelocked_role returns Ok only behind CpiAuthenticate::only(ctx, timelocked_role(role))?", where=v.where())
    cnt = 0
    for nm in ("approve_instruction", "approve_instructions"):
        h = ctx.fn(IB + nm)
        if not h:
            continue
        vs = h.calls_to(IB + "validate_timelocked_role$")
        aps = h.calls_to(HD + "approve$")
        ok = len(vs) == 1 and len(aps) == 1 and [str(vs[0].arg_expr(i)) for i in range(2)] == ["ctx", "role"]
        if ok:
            ts = H.success_edge(h, vs[0])
            ok = ts is not None and h.dominates(ts[1], aps[0].bb)
            # nothing mutable is loaded before the check either
            lm = h.calls_to(r"AccountLoader::<.*>::load_mut$|AccountLoader.*load_mut$")
            ok = ok and all(h.dominates(ts[1], c.bb) for c in lm)
        cnt += len(aps)
        ctx.ob("approve:handler-gated:" + nm, ok, "%s: approve() (and every load_mut) only behind the Ok edge of validate_timelocked_role(ctx, role)?" % nm, where=h.where())
        if aps:
            ctx.ob("approve:handler-approver:" + nm, str(aps[0].arg_expr(1)) == "Key::key(ctx.accounts.authority)",
                   "%s records the signer `authority` as approver (%s)" % (nm, aps[0].arg_expr(1)), where=h.where())
        if nm == "approve_instructions" and aps:
            facts = A.cmp_facts(h, aps[0].bb)
            ok = any(o == "==" and re.search(r"InstructionHeader::executor\(", str(a) + str(b)) and re.search(r"Key::key\(ctx\.accounts\.executor\)", str(a) + str(b))
                     for (o, a, b) in facts if b is not None)
            ctx.ob("approve:batch-executor", ok, "approve_instructions approves a buffer only under header.executor == ctx.accounts.executor.key()", where=h.where())
    ctx.floor("approve-handlers", cnt, 2)
    callers = sorted(set(c.fn.short for c in prog.callers_of("gmsol_timelock::states::instruction::InstructionHeader::approve")))
    ctx.ob("approve:callers", callers == ["instruction_buffer::approve_instruction", "instruction_buffer::approve_instructions"],
           "InstructionHeader::approve is called from %s" % callers, where=f.where() if f else "")


def _delay(ctx, prog):
    ws = H.field_writers(prog, ["gmsol_timelock"], "states::config::TimelockConfig", "delay")
    who = sorted(set(w["fn"].short for w in ws))
    ctx.ob("delay-grows:writers", who == ["TimelockConfig::increase_delay", "TimelockConfig::init"], "TimelockConfig.delay is written by %s" % who, where="programs/timelock/src/states/config.rs")
    ctx.floor("delay-writers", len(ws), 2)
    f = ctx.fn(r"gmsol_timelock::states::config::TimelockConfig::increase_delay")
    if f:
        w = H.writes_to(f, r"^self\.delay$")
        c = H.checked_op(w[0][2]) if len(w) == 1 else None
        ok = c is not None and c[0] == "checked" and c[1] == "add" and str(c[2]) == "self.delay" and str(c[3]) == "delta" and H.unwrap_success(w[0][2]) is not None
        fld = [x for x in ctx.adt(r"gmsol_timelock::states::config::TimelockConfig").fields if x["name"] == "delay"]
        ctx.ob("delay-grows:checked-add", ok and bool(fld) and fld[0]["ty"] == "u32",
               "increase_delay stores checked_add(self.delay, delta)? on an unsigned field (%s)" % (fld[0]["ty"] if fld else "?"), where=f.where())
        H.atomic_update(ctx, "delay-grows:atomic", f)
    init_callers = sorted(set(c.fn.short for c in prog.callers_of("gmsol_timelock::states::config::TimelockConfig::init")))
    ctx.ob("delay-grows:init-once", init_callers == ["config::unchecked_initialize_config"], "TimelockConfig::init is called from %s (the `init` account constraint makes it once)" % init_callers,
           where="programs/timelock/src/instructions/config.rs")
    a = ctx.adt(r"gmsol_timelock::instructions::config::InitializeConfig")
    if a:
        fld = [x for x in a.fields if x["name"] == "timelock_config"]
        ok = bool(fld) and re.search(r"\binit\b", fld[0].get("pre", "")) is not None and "init_if_needed" not in fld[0].get("pre", "")
        ctx.ob("delay-grows:init-constraint", ok, "InitializeConfig.timelock_config carries `init` (cannot be re-initialised)", where="%s:%d" % (a.file, a.line))


def _consumed(ctx, prog):
    want = {
        "ExecuteInstruction": ["signer:authority", "has_one:timelock_config->store", "has_one:executor->store", "seeds:wallet<-executor",
                               "has_one:instruction->executor", "has_one:instruction->rent_receiver", "close:instruction=rent_receiver"],
        "CancelInstruction": ["signer:authority", "has_one:executor->store", "has_one:instruction->executor", "has_one:instruction->rent_receiver",
                              "close:instruction=rent_receiver"],
        "ApproveInstruction": ["signer:authority", "has_one:executor->store", "constraint:executor:executor.load()?.role_name()?==role.as_str()",
                               "seeds:executor<-store", "has_one:instruction->executor"],
        "ApproveInstructions": ["signer:authority", "has_one:executor->store", "constraint:executor:executor.load()?.role_name()?==role.as_str()",
                                "seeds:executor<-store"],
        "CancelInstructions": ["signer:authority", "has_one:executor->store"],
    }
    for nm, ws in want.items():
        a = ctx.adt(IB + nm)
        if not a:
            continue
        have = set(AccountsStruct(a).facts())
        missing = [w for w in ws if w not in have]
        ctx.ob("buffer-consumed:constraints:" + nm, not missing, "%s keeps its %d reviewed constraints%s" % (nm, len(ws), "; MISSING %s" % missing if missing else ""),
               where="%s:%d" % (a.file, a.line))
    f = ctx.fn(IB + "unchecked_cancel_instructions")
    if f:
        cl = [c for c in f.calls if re.search(r"AccountsClose::close$|::close$", c.name or "") and "AccountLoader" in (c.name or "") + str(c.self_ty or "")]
        if not cl:
            cl = [c for c in f.calls if c.short.endswith("::close")]
        ok = bool(cl)
        for c in cl:
            facts = A.cmp_facts(f, c.bb)
            s = [str(a) + " | " + str(b) for (o, a, b) in facts if o == "==" and b is not None]
            ok = ok and any("InstructionHeader::executor(" in x and "Key::key(ctx.accounts.executor)" in x for x in s) \
                and any("InstructionHeader::rent_receiver(" in x and "Key::key(ctx.accounts.rent_receiver)" in x for x in s) \
                and "ctx.accounts.rent_receiver" in str(c.arg_expr(1))
        ctx.ob("buffer-consumed:batch-cancel", ok, "cancel_instructions closes a buffer (to rent_receiver) only under header.executor == executor and "
               "header.rent_receiver == rent_receiver (%d close site)" % len(cl), where=f.where())


def _faithful(ctx, prog):
    fs = ctx.fns(r"gmsol_timelock::states::instruction::InstructionLoader<'info>>::load_and_init_instruction", floor=1)
    if fs:
        f = fs[0]
        ws = {w["path"].rsplit(".", 1)[-1]: str(w["rv"]) for w in A.field_writes(f, r"^AccountLoader::load_init\(self\)\?\.") if w["kind"] == "assign"}
        want = {"wallet_bump": "wallet_bump", "executor": "executor", "program_id": "program_id", "rent_receiver": "rent_receiver",
                "num_accounts": "TryInto::try_into([T]::len(instruction_accounts))?", "data_len": "TryInto::try_into([T]::len(instruction_data))?"}
        ctx.ob("faithful:header", ws == want, "header fields are stored from the arguments: %s" % ws, where=f.where())
        for fld in ("executor", "program_id", "num_accounts", "data_len", "wallet_bump", "rent_receiver"):
            who = sorted(set(w["fn"].short for w in H.field_writers(prog, ["gmsol_timelock"], "states::instruction::InstructionHeader", fld)))
            ctx.ob("faithful:header-writers:" + fld, who == ["load_and_init_instruction"], "InstructionHeader.%s is written by %s" % (fld, who), where=f.where())
        cp = [c for c in f.calls if c.short == "[T]::copy_from_slice"]
        ctx.ob("faithful:data", len(cp) == 1 and str(cp[0].arg_expr(1)) == "instruction_data", "instruction data is copy_from_slice(instruction_data)", where=f.where())
        acct = r"Iterator::next\(Iterator::enumerate\(\[T\]::iter\(instruction_accounts\)\)\)@Some\.0\.1"
        idx = r"Iterator::next\(Iterator::enumerate\(\[T\]::iter\(instruction_accounts\)\)\)@Some\.0\.0"
        sf = [c for c in f.calls if re.search(r"InstructionAccountFlagContainer::set_flag$", c.name or "")]
        sig = [c for c in sf if str(c.arg_expr(1)) == "InstructionAccountFlag::Signer{}"]
        wr = [c for c in sf if str(c.arg_expr(1)) == "InstructionAccountFlag::Writable{}"]
        contains_re = r"^\[T\]::contains\(signers, Result::map_err\(TryInto::try_into\(" + idx + r"\), .*\)\?\)$"
        ctx.ob("faithful:signer-flag-value", len(sig) == 1 and re.match(contains_re, str(sig[0].arg_expr(2))) is not None,
               "Signer flag := signers.contains(index of this account)", where=f.where())
        ctx.ob("faithful:writable-flag-value", len(wr) == 1 and re.match("^" + acct + r"\.is_writable$", str(wr[0].arg_expr(2))) is not None,
               "Writable flag := account.is_writable", where=f.where())
        pk = [w for w in A.field_writes(f, r"\.pubkey$") if w["kind"] == "assign"]
        ctx.ob("faithful:pubkey", len(pk) == 1 and re.match(r"^(Key::key|AccountInfo::key)\(" + acct + r"\)$", str(pk[0]["rv"])) is not None and
               re.search(r"dynamic_access::get_mut\(.*, " + idx + r"\)", pk[0]["path"]) is not None,
               "slot idx stores account.key() of the idx-th argument account", where=f.where())
        # conditional must-pass: from the `is_signer == true` edge, the stores are reachable only via wallet == address
        ok = False
        why = "no branch on signers.contains(..) found"
        for i, b in enumerate(f.blocks):
            if b["t"][0] != "switch" or b.get("cleanup"):
                continue
            if not re.match(contains_re, str(f.expr(b["t"][1]))):
                continue
            true_tgt = [t for t, lab in f.succ(i) if lab[0] == "otherwise"]
            cmpb = [j for j, bj in enumerate(f.blocks) if bj["t"][0] == "switch" and re.match(
                r"^PartialEq::(ne|eq)\(InstructionHeader::wallet\(.*\)\?, (Key::key|AccountInfo::key)\(" + acct + r"\)\)$", str(f.expr(bj["t"][1])))]
            if len(true_tgt) == 1 and len(cmpb) == 1:
                j = cmpb[0]
                is_ne = str(f.expr(f.blocks[j]["t"][1])).startswith("PartialEq::ne")
                eq_edges = [t for t, lab in f.succ(j) if (lab[0] == "val" and lab[1] == 0) == is_ne]
                stores = [c.bb for c in sig] + [w["bb"] for w in pk]
                # avoid the equality edge: delete block j's equality successor by avoiding edges
                avoid = [(j, t) for t in eq_edges]
                ok = bool(stores) and all(not f.can_reach(true_tgt[0], s, avoid_blocks=(i,), avoid_edges=avoid) for s in stores) \
                    and all(f.can_reach(true_tgt[0], s, avoid_blocks=(i,)) for s in stores)
                why = "signer edge bb%d -> stores only via the equality edge of bb%d" % (i, j)
        ctx.ob("faithful:signer-only-wallet", ok, "on the is_signer edge the account is stored only if header.wallet()? == account.key(): %s" % why, where=f.where())
        li = f.calls_to(r"load_instruction$")
        oks = [(bb, e) for bb, k, e in f.exits() if k != "err"]
        ctx.ob("faithful:returns-loaded", len(li) == 1 and len(oks) == 1 and "load_instruction(self)" in str(oks[0][1]),
               "the function returns load_instruction(self) of the freshly written account", where=f.where())
    h = ctx.fn(IB + "unchecked_create_instruction_buffer")
    if h:
        cs = h.calls_to(r"load_and_init_instruction$")
        ok = len(cs) == 1
        if ok:
            a = [str(cs[0].arg_expr(i)) for i in range(len(cs[0].args))]
            ok = a[0] == "ctx.accounts.instruction_buffer" and a[1] == "Key::key(ctx.accounts.executor)" and \
                a[2] == "AccountLoader::load(ctx.accounts.executor)?.wallet_bump" and a[3] == "Key::key(ctx.accounts.authority)" and \
                re.match(r"^(Key::key|UncheckedAccount::key)\(ctx\.accounts\.instruction_program\)$", a[4]) is not None and a[5] == "data" and \
                re.match(r"^Index::index\(ctx\.remaining_accounts, Range\{start: 0, end: \(num_accounts as usize\)\}\)$|^Index::index\(ctx\.remaining_accounts, Range\{start: 0, end: .*num_accounts.*\}\)$", a[6]) is not None \
                and a[7] == "signers"
            ctx.ob("faithful:create-args", ok, "create_instruction_buffer stores (executor, its wallet bump, authority as rent receiver, program, data, "
                   "remaining_accounts[0..num_accounts], signers): %s" % [x[:60] for x in a], where=h.where())
            facts = A.cmp_facts(h, cs[0].bb)
            ctx.ob("faithful:create-lengths", A.has_fact(facts, "==", r"^\[T\]::len\(data\)$", r"data_len") and A.has_fact(facts, ">=", r"^\[T\]::len\(ctx\.remaining_accounts\)$", r"num_accounts"),
                   "behind data.len() == data_len and remaining_accounts.len() >= num_accounts", where=h.where())
        else:
            ctx.ob("faithful:create-args", False, "expected one load_and_init_instruction call", where=h.where())
    # rebuild
    t = ctx.fn(r"gmsol_utils::instruction::InstructionAccess::to_instruction")
    if t:
        oks = [e for bb, k, e in t.exits() if k == "ok"]
        flds = H.agg_fields(oks[0], r"(^|::)Instruction$") if len(oks) == 1 else None
        ok = flds is not None and str(flds.get("program_id")) == "InstructionAccess::program_id(self)" and \
            re.match(r"^Iterator::collect\(Iterator::map\(InstructionAccess::accounts\(self\), fn:[A-Za-z:]*from\)\)$", str(flds.get("accounts"))) is not None and \
            re.match(r"^(\[T\]::to_vec|ToOwned::to_owned|Vec::from)\(InstructionAccess::data\(self\)\)$|^InstructionAccess::data\(self\)$", str(flds.get("data"))) is not None
        mp = [c for c in t.calls if c.short == "Iterator::map"]
        conv = mp[0].arg_expr(1) if mp else None
        ok_conv = conv is not None and conv.k == "const" and isinstance(conv.a[-1], dict) and \
            "<anchor_lang::prelude::AccountMeta as std::convert::From<&gmsol_utils::instruction::InstructionAccount>>::from" in conv.a[-1].get("ty", "")
        ctx.ob("faithful:rebuild", ok and ok_conv, "to_instruction = Instruction{program_id(), accounts().map(AccountMeta::from).collect(), data().to_vec()}", where=t.where())
        # Semantic fact: every store to an account meta's is_signer stores `true`, happens only under
        # mark_executor_wallet_as_signer, and only for a meta whose pubkey == self.wallet()! — either via
        # iter_mut().filter(pred).for_each(set) closures or via an explicit loop with an `if` in the body.
        cl = prog.closures_of(t)
        cw = [w for c in cl for w in H.closure_writes(prog, t, c, r"is_signer$|is_writable$|pubkey$")]
        bw = [w for w in A.field_writes(t, r"is_signer$|is_writable$|pubkey$") if w["kind"] == "assign"]
        WAL = "InstructionAccess::wallet(self)!"
        if cw and not bw:
            # the predicate handed to Iterator::filter: ALL of its results must be the wallet equality
            fcs = [c for c in t.calls if c.short == "Iterator::filter"]
            filt = None
            if len(fcs) == 1 and fcs[0].arg_expr(1).k == "closure":
                pf = prog.fns.get(fcs[0].arg_expr(1).a[0])
                filt = [v.replace("?>", "!>") for v in H.closure_view(prog, t, pf)] if pf is not None else None
            fe = [c for c in t.calls if c.short == "Iterator::for_each"]
            ok = cw == [("$1.is_signer", "true")] and \
                filt in (["PartialEq::eq($1.pubkey, <InstructionAccess::wallet(self)!>)"], ["PartialEq::eq(<InstructionAccess::wallet(self)!>, $1.pubkey)"]) and len(fe) == 1 and \
                A.has_bool_fact(A.cmp_facts(t, fe[0].bb), True, r"^mark_executor_wallet_as_signer$") and \
                "Iterator::filter(" in str(fe[0].arg_expr(0))
        elif bw and not cw:
            ok = True
            for w in bw:
                base = H.canon_path(w["path"])
                facts = H.canon_facts(t, w["bb"])
                ok = ok and w["path"].endswith(".is_signer") and str(w["rv"]) == "true" and H.has_canon_bool(facts, True, r"^mark_executor_wallet_as_signer$") and \
                    any(o == "==" and b is not None and {a, b} == {base[:-len(".is_signer")] + ".pubkey", WAL} for (o, a, b) in facts)
        else:
            ok = False
        ctx.ob("faithful:signer-mark", ok, "is_signer is forced to true only under mark_executor_wallet_as_signer and only for pubkey == self.wallet()?", where=t.where())
    m = ctx.fn(r"gmsol_utils::instruction::<impl std::convert::From<&'a gmsol_utils::instruction::InstructionAccount> for anchor_lang::prelude::AccountMeta>::from")
    if m:
        ex = [str(e) for _, _, e in m.exits()]
        want = "AccountMeta{pubkey: a.pubkey, is_signer: InstructionAccountFlagContainer::get_flag(a.flags, InstructionAccountFlag::Signer{}), " \
               "is_writable: InstructionAccountFlagContainer::get_flag(a.flags, InstructionAccountFlag::Writable{})}"
        ctx.ob("faithful:account-meta", ex == [want], "AccountMeta::from(a) = %s" % ex, where=m.where())
    acc = {"program_id": "self.header.program_id", "data": "self.data", "num_accounts": "self.header.num_accounts"}
    n = 0
    for nm, want in acc.items():
        g = ctx.fn(r"<gmsol_timelock::states::instruction::InstructionRef<'_> as gmsol_utils::instruction::InstructionAccess>::" + nm)
        if g:
            n += 1
            ex = [str(H.peel(e)) for _, _, e in g.exits()]
            ex = [re.sub(r"^\((.*) as usize\)$", r"\1", x) for x in ex]
            ctx.ob("faithful:access:" + nm, ex == [want], "InstructionRef::%s() = %s" % (nm, ex), where=g.where())
    g = ctx.fn(r"<gmsol_timelock::states::instruction::InstructionRef<'_> as gmsol_utils::instruction::InstructionAccess>::accounts")
    if g:
        ex = [str(e) for _, _, e in g.exits()]
        cl = prog.closures_of(g)
        cex = [v for c in cl for v in H.closure_view(prog, g, c)]
        ok = len(ex) == 1 and ex[0].startswith("Iterator::map(Range{start: 0, end: InstructionAccess::num_accounts(self)}, closure<") and \
            len(cex) == 1 and re.match(r"^Option::(expect|unwrap)\(dynamic_access::get\(<self>\.accounts, \$1\)", cex[0]) is not None
        ctx.ob("faithful:access:accounts", ok, "InstructionRef::accounts() = (0..num_accounts()).map(|idx| get(self.accounts, idx))", where=g.where())
    ctx.floor("faithful-accessors", n, 3)
    callers = sorted(set(c.fn.short for c in prog.callers_of("gmsol_utils::instruction::InstructionAccess::to_instruction") if c.fn.crate == "gmsol_timelock"))
    raw = sorted(set(g.short for g in prog.fns.values() if g.crate == "gmsol_timelock" and "__idl" not in g.id and "__private" not in g.id
                     for c in g.calls if re.search(r"(^|::)(invoke|invoke_signed|invoke_unchecked|invoke_signed_unchecked)$", c.name or "")))
    ctx.ob("exec-gate:cpi-sites", callers == ["instruction_buffer::unchecked_execute_instruction"] and raw == callers,
           "buffered instructions are rebuilt (%s) and raw CPIs issued (%s) only in the gated execute handler" % (callers, raw),
           where="programs/timelock/src/instructions/instruction_buffer.rs")
