"""C32 Builder fees are bounded by what the order actually produced.

Decided:
 * fee-formula     : compute_builder_fee_amount returns 0 only under factor == 0, otherwise
                     checked_round_up_div(apply_factor(size, factor)?, price.pick_price(false)) with None => Err;
                     Price::pick_price(false) is the minimum price;
 * clamp           : clamp_builder_fee_amount = min(fee, available);
 * increase-split  : charge_builder_fee_on_collateral_increment returns (increment - payable, payable) with the checked
                     subtraction under increment >= payable, payable = try_from(compute(size, factor, price)?)?;
                     execute_increase_position feeds `.0` to position.increase and `.1` to record_builder_fee and to the
                     final-output bucket, on every path with factor != 0;
 * decrease-clamped: in execute_decrease_position the recorded amount is try_from(clamp(compute(executed size, factor,
                     final-output price)?, output_amount)) where output_amount is the amount routed to the final output bucket;
 * record          : Order.builder_fee_amount is written only by record_builder_fee (checked add) and by settlement (0);
                     record_builder_fee is called only from the two execute functions;
 * settle          : SettleBuilderFee::invoke transfers min(recorded, escrow.amount), zeroes the record behind the Ok edge
                     of the transfer, returns Ok(()) without any transfer when the record is 0, and requires
                     order.builder == builder_user.
"""
import re

from .. import analyses as A
from .. import anchor
from .. import h_F as H

OPS = r"gmsol_store::ops::order::"


def _ok_payload(e):
    """Result::Ok{0: X} -> X"""
    if e.k == "agg" and e.a[0].endswith("Ok") and e.a[1]:
        return e.a[1][0][1]
    return None


def _root_call(e, name_re):
    """see through `?`, wrappers, casts and tuple-field projections down to the producing call"""
    for _ in range(12):
        e = H.peel(e)
        if e.k in ("field", "cast"):
            e = e.a[0]
            continue
        break
    if e.k == "call" and re.search(name_re, e.a[0]):
        return e
    return None


def _origin(e):
    """(CallSite bb, projection) of a value `call(..)?.f` — identifies the producing call site independent of rendering depth"""
    proj = []
    for _ in range(12):
        e = H.peel(e)
        if e.k == "field":
            proj.insert(0, e.a[1])
            e = e.a[0]
            continue
        if e.k == "cast":
            e = e.a[0]
            continue
        break
    if e.k == "call" and len(e.a) > 2:
        return (e.a[2].bb, e.a[0], tuple(proj))
    return (None, str(e), tuple(proj))


def _call(e, name_re):
    e = H.peel(e)
    if e.k == "call" and re.search(name_re, e.a[0]):
        return e
    return None


def run(ctx):
    prog = ctx.prog(["gmsol_store", "gmsol_model"])
    ctx.explanation = (
        "The builder-fee helpers are checked as expression shapes over resolved callees (apply_factor, checked_round_up_div, "
        "pick_price(false), Ord::min, checked_sub under the >= fact), the two execute paths by argument provenance and "
        "must-pass-through (what is recorded is what was clamped / split off), the record field by who-may-write over the "
        "whole program, and settlement by dominance: transfer amount = min(recorded, escrow), zero-store behind the "
        "transfer's Ok edge, early Ok only when nothing is recorded.")
    ctx.not_decided = (
        "Numeric equality fee == ceil(size*factor/price) (rounding primitives are trusted by name: checked_round_up_div = ceil, "
        "apply_factor = floor mul-div; C01 covers them); WHICH DecreasePositionSwapType variant is rejected for a non-zero factor "
        "(the compared constant is a promoted MIR constant whose value the facts do not carry — only the presence of the "
        "factor-keyed inequality guard is shown); that the escrow really holds the recorded amount (histories).")
    ctx.rule("fee-formula", "fee = 0 iff factor == 0 else ceil_div(apply_factor(size, factor), min price); None => Err")
    ctx.rule("clamp", "clamp_builder_fee_amount is min(fee, available)")
    ctx.rule("increase-split", "(increment - payable, payable) under increment >= payable; both parts consumed as such by execute_increase_position")
    ctx.rule("decrease-clamped", "recorded fee = try_from(clamp(compute(executed size, factor, final-output price), final output amount))")
    ctx.rule("record", "builder_fee_amount writers / record_builder_fee callers are the reviewed ones; record is a checked add")
    ctx.rule("settle", "transfer min(recorded, escrow); zero after successful transfer; no-op when 0; builder identity checked")

    # ------------------------------------------------------------ fee formula
    f = ctx.fn(OPS + "compute_builder_fee_amount")
    if f:
        zero, main = [], []
        for bb, k, e in f.exits():
            if k == "err":
                continue
            pl = _ok_payload(e)
            if pl is not None and str(pl) == "0":
                zero.append(bb)
            else:
                main.append((bb, e))
        ok = len(zero) == 1 and all(A.has_fact(A.cmp_facts(f, bb), "==", r"^factor$", r"^0$") for bb in zero)
        ctx.ob("fee-formula:zero-factor", ok, "constant 0 is returned only under factor == 0 (%d such exit)" % len(zero), where=f.where())
        pp = f.calls_to(r"Price::<T>::pick_price$|::pick_price$")
        ctx.ob("fee-formula:zero-factor-no-price", bool(pp) and all(A.has_fact(A.cmp_facts(f, c.bb), "!=", r"^factor$", r"^0$") for c in pp),
               "the price is read only when factor != 0", where=f.where())
        ok_div = ok_val = ok_price = False
        desc = ""
        if len(main) == 1:
            bb, e = main[0]
            desc = str(e)[:200]
            wrapped = e.k == "call" and e.a[0] in ("Option::ok_or_else", "Option::ok_or")  # None -> Err
            d = _call(e, r"^Unsigned::checked_round_up_div$")
            if d is not None and wrapped:
                ok_div = True
                v = _call(d.a[1][0], r"^utils::apply_factor$")
                ok_val = v is not None and [str(x) for x in v.a[1]] == ["size_delta_usd", "factor"] and \
                    H.peel(d.a[1][0]) is v and H.unwrap_success(d.a[1][0]) is not None
                pr = _call(d.a[1][1], r"^Price::pick_price$")
                ok_price = pr is not None and str(pr.a[1][0]) == "price" and str(pr.a[1][1]) == "false"
        ctx.ob("fee-formula:ceil-div", ok_div, "non-zero factor: result is checked_round_up_div(..) with None => Err: %s" % desc, where=f.where())
        ctx.ob("fee-formula:value", ok_val, "dividend is apply_factor(size_delta_usd, factor)? (None => Err)", where=f.where())
        ctx.ob("fee-formula:min-price", ok_price, "divisor is price.pick_price(false)", where=f.where())
    pk = ctx.fn(r"gmsol_model::price::Price::<T>::pick_price")
    if pk:
        tab = {}
        for p in A.decision_table(pk):
            if A.feasible(p) and p["ret"] is not None:
                for c, lab, _ in p["conds"]:
                    if str(c) == "maximize":
                        tab[lab == 0 and "false" or "true"] = str(p["ret"])
        ctx.ob("fee-formula:pick-price-table", tab == {"false": "self.min", "true": "self.max"}, "pick_price: %s" % tab, where=pk.where())

    # ------------------------------------------------------------ clamp
    f = ctx.fn(OPS + "clamp_builder_fee_amount")
    if f:
        ex = [str(e) for _, _, e in f.exits()]
        ctx.ob("clamp:min", ex in (["Ord::min(fee_amount, available)"], ["Ord::min(available, fee_amount)"], ["cmp::min(fee_amount, available)"]),
               "clamp_builder_fee_amount returns %s" % ex, where=f.where())

    # ------------------------------------------------------------ increase split
    ch = ctx.fn(OPS + "charge_builder_fee_on_collateral_increment")
    if ch:
        oks = [(bb, _ok_payload(e)) for bb, k, e in ch.exits() if k == "ok"]
        good = len(oks) == 1 and oks[0][1] is not None and oks[0][1].k == "agg"
        pay = rest = None
        if good:
            parts = dict(oks[0][1].a[1])
            rest, pay = parts.get("0"), parts.get("1")
        c = H.checked_op(rest) if rest is not None else None
        ok_sum = c is not None and c[0] == "checked" and c[1] == "sub" and str(c[2]) == "collateral_increment_amount" and str(c[3]) == str(pay) \
            and H.unwrap_success(rest) is not None
        ctx.ob("increase-split:sum", bool(ok_sum), "Ok((increment checked_sub payable, payable)) — the two parts add up to the increment: %s" % (
            "%s_%s(%s, <payable>)" % (c[0], c[1], c[2]) if c else str(rest)[:120]), where=ch.where())
        tf = _call(pay, r"^TryFrom::try_from$") if pay is not None else None
        cm = _call(tf.a[1][0], r"^order::compute_builder_fee_amount$") if tf is not None else None
        ok_pay = cm is not None and [str(x) for x in cm.a[1]] == ["size_delta_usd", "builder_fee_factor", "collateral_price"] and H.unwrap_success(pay) is not None
        ctx.ob("increase-split:payable", ok_pay, "payable = try_from(compute_builder_fee_amount(size_delta_usd, builder_fee_factor, collateral_price)?)?", where=ch.where())
        if good:
            facts = A.cmp_facts(ch, oks[0][0])
            ok_ge = any(o in (">=", ">") and str(a) == "collateral_increment_amount" and str(b) == str(pay) for (o, a, b) in facts if b is not None) or \
                any(o in ("<=", "<") and str(b) == "collateral_increment_amount" and str(a) == str(pay) for (o, a, b) in facts if b is not None)
            ctx.ob("increase-split:covered", ok_ge, "Ok only under increment >= payable (underpayment errors)", where=ch.where())
    inc = ctx.fn(OPS + "execute_increase_position")
    if inc and ch:
        cs = inc.calls_to(OPS + "charge_builder_fee_on_collateral_increment$")
        incs = inc.calls_to(r"PositionMutExt::increase$")
        rec = inc.calls_to(r"Order::record_builder_fee$")
        tos = [c for c in inc.calls_to(r"TransferOut::transfer_out$")]
        ok = len(cs) == 1 and len(incs) == 1 and len(rec) == 1
        if ok:
            c0 = cs[0]
            swap_o = _origin(c0.arg_expr(0))
            alts = sorted(_origin(x) for x in incs[0].arg_expr(2).alts())
            want = sorted([swap_o, (c0.bb, c0.short, ("0",))])
            ctx.ob("increase-split:consumed:collateral", alts == want and _root_call(c0.arg_expr(0), r"revertible_swap$") is not None and swap_o[2] == ("0",),
                   "position.increase receives the swap output (factor == 0) or charge(..)?.0 computed from that same swap output: %s" % (alts,), where=inc.where(c0.line))
            ctx.ob("increase-split:consumed:args", [str(c0.arg_expr(i)) for i in (1, 2)] == ["order.params.size_delta_value", "builder_fee_factor"] and
                   re.match(r"^PositionExt::collateral_price\(position, prices\)$", str(c0.arg_expr(3))) is not None,
                   "charge is evaluated on the order's size delta, the builder factor and the collateral price", where=inc.where(c0.line))
            fee_o = (c0.bb, c0.short, ("1",))
            ctx.ob("increase-split:consumed:recorded", _origin(rec[0].arg_expr(1)) == fee_o and rec[0].arg_expr(1).k == "field" and H.unwrap_success(rec[0].arg_expr(1).a[0]) is not None and str(rec[0].arg_expr(0)) == "order",
                   "record_builder_fee(order, charge(..)?.1)", where=inc.where(rec[0].line))
            fee_to = [c for c in tos if _origin(c.arg_expr(2)) == fee_o]
            ctx.ob("increase-split:consumed:escrowed", len(fee_to) == 1 and str(fee_to[0].arg_expr(1)) == "false",
                   "the fee part is routed to the final-output-token bucket: transfer_out(false, charge(..)?.1)", where=inc.where())
            # must-pass: with factor != 0 the increase is reached only through the Ok edge of charge / record / transfer_out
            sw = [i for i, b in enumerate(inc.blocks) if b["t"][0] == "switch" and re.match(r"^\(builder_fee_factor (Ne|Eq) 0\)$", str(inc.expr(b["t"][1])))]
            good = bool(sw)
            for s in sw:
                cond = str(inc.expr(inc.blocks[s]["t"][1]))
                for tgt, lab in inc.succ(s):
                    nonzero = (lab[0] == "otherwise") == (" Ne " in cond)
                    if nonzero:
                        for must in (c0, rec[0]) + tuple(fee_to[:1]):
                            ts = H.success_edge(inc, must)
                            if ts is None or inc.can_reach(tgt, incs[0].bb, avoid_blocks=(ts[1],)):
                                good = False
            ctx.ob("increase-split:must-pass", good, "with factor != 0, position.increase is reachable only through the Ok edges of charge, "
                   "transfer_out and record_builder_fee (%d factor branches)" % len(sw), where=inc.where())
        else:
            ctx.ob("increase-split:consumed:collateral", False, "expected exactly one charge / increase / record call (%d/%d/%d)" % (len(cs), len(incs), len(rec)), where=inc.where())

    # ------------------------------------------------------------ decrease
    dec = ctx.fn(OPS + "execute_decrease_position")
    if dec:
        rec = dec.calls_to(r"Order::record_builder_fee$")
        ok = len(rec) == 1
        if ok:
            a = rec[0].arg_expr(1)
            # follow the producing call sites (each argument is re-resolved at its own call site, so no depth cut-off)
            tf = _call(a, r"^TryFrom::try_from$")
            tf_cs = tf.a[2] if tf is not None and len(tf.a) > 2 else None
            cl = _call(tf_cs.arg_expr(0), r"^order::clamp_builder_fee_amount$") if tf_cs is not None else None
            cl_cs = cl.a[2] if cl is not None and len(cl.a) > 2 else None
            ctx.ob("decrease-clamped:recorded", cl_cs is not None and H.unwrap_success(a) is not None,
                   "record_builder_fee receives try_from(clamp_builder_fee_amount(..))?: %s" % str(a)[:70], where=dec.where(rec[0].line))
            if cl_cs is not None:
                fee_e = cl_cs.arg_expr(0)
                cm = _call(fee_e, r"^order::compute_builder_fee_amount$")
                cm_cs = cm.a[2] if cm is not None and len(cm.a) > 2 else None
                out = cl_cs.arg_expr(1)
                tos = [c for c in dec.calls_to(r"TransferOut::transfer_out$") if str(c.arg_expr(1)) == "false"]
                same = [c for c in tos if _origin(c.arg_expr(2)) == _origin(out) and _origin(out)[0] is not None]
                ctx.ob("decrease-clamped:bound-is-output", len(same) == 1 and len(tos) == 1 and _root_call(out, r"revertible_swap$") is not None,
                       "the clamp bound is the amount routed to the final-output bucket (transfer_out(false, <same value>)), the swap's output",
                       where=dec.where(cl_cs.line))
                ok_c = cm_cs is not None and H.unwrap_success(fee_e) is not None
                ctx.ob("decrease-clamped:fee", ok_c and str(cm_cs.arg_expr(1)) == "builder_fee_factor" and
                       re.match(r"^DecreasePositionReport::size_delta_usd\(", str(cm_cs.arg_expr(0))) is not None and
                       _call(cm_cs.arg_expr(2), r"^Oracle::get_primary_price$") is not None and
                       "order.tokens.final_output_token" in str(cm_cs.arg_expr(2)),
                       "fee = compute(report.size_delta_usd() [executed size], builder_fee_factor, oracle price of the final output token)?",
                       where=dec.where(cl_cs.line))
            ctx.ob("decrease-clamped:only-nonzero-factor", A.has_fact(A.cmp_facts(dec, rec[0].bb), "!=", r"^builder_fee_factor$", r"^0$"),
                   "recording happens only under builder_fee_factor != 0", where=dec.where())
        else:
            ctx.ob("decrease-clamped:recorded", False, "expected one record_builder_fee call, found %d" % len(rec), where=dec.where())
        est = dec.calls_to(OPS + "estimate_builder_fee_for_collateral_withdrawal$")
        ctx.ob("decrease-clamped:estimate-args", len(est) == 1 and str(est[0].arg_expr(2)) == "builder_fee_factor" and
               str(est[0].arg_expr(0)) == "order.params.initial_collateral_delta_amount" and "decrease_position_swap_type" in str(est[0].arg_expr(4)),
               "withdrawal is sized by estimate(initial_collateral_delta_amount, size, factor, price, swap type)", where=dec.where())
    est = ctx.fn(OPS + "estimate_builder_fee_for_collateral_withdrawal")
    if est:
        n_id = n_sum = 0
        okk = True
        for bb, k, e in est.exits():
            if k == "err":
                continue
            facts = A.cmp_facts(est, bb)
            pl = _ok_payload(e)
            if pl is not None and str(pl) == "collateral_withdrawal_amount":
                n_id += 1
                okk = okk and A.has_fact(facts, "==", r"^builder_fee_factor$", r"^0$")
            else:
                n_sum += 1
                c = H.checked_op(e)
                cm = _call(c[3], r"^order::compute_builder_fee_amount$") if c else None
                okk = okk and c is not None and c[0] == "checked" and c[1] == "add" and str(c[2]) == "collateral_withdrawal_amount" and cm is not None
                okk = okk and A.has_fact(facts, "!=", r"^builder_fee_factor$", r"^0$")
                okk = okk and any(o == "!=" and str(a) == "decrease_position_swap_type" for (o, a, b) in facts if b is not None)
                # the swap-type guard does not depend on the estimate
                okk = okk and not any("compute_builder_fee_amount" in str(a) + str(b) for (o, a, b) in facts if b is not None and str(a) == "decrease_position_swap_type")
        ctx.ob("decrease-clamped:estimate", okk and n_id == 1 and n_sum == 1,
               "estimate: unchanged amount only under factor == 0; otherwise checked_add(amount, compute(..)?) behind a swap-type inequality keyed on the factor alone",
               where=est.where())

    # ------------------------------------------------------------ record
    rb = ctx.fn(r"gmsol_store::states::order::Order::record_builder_fee")
    if rb:
        ws = H.writes_to(rb, r"^self\.builder_fee_amount$")
        c = H.checked_op(ws[0][2]) if len(ws) == 1 else None
        ctx.ob("record:checked-add", c is not None and c[0] == "checked" and c[1] == "add" and str(c[2]) == "self.builder_fee_amount" and str(c[3]) == "amount",
               "record_builder_fee stores checked_add(self.builder_fee_amount, amount)", where=rb.where())
        H.atomic_update(ctx, "record:atomic", rb)
        callers = sorted(set(cs.fn.short for cs in prog.callers_of(rb.id)))
        ctx.ob("record:callers", callers == ["order::execute_decrease_position", "order::execute_increase_position"],
               "record_builder_fee is called from %s" % callers, where=rb.where())
    ws = H.field_writers(prog, ["gmsol_store"], "states::order::Order", "builder_fee_amount")
    who = sorted(set(w["fn"].short for w in ws))
    ctx.ob("record:writers", who == ["Order::record_builder_fee", "SettleBuilderFee::invoke"], "Order.builder_fee_amount is written by %s" % who,
           where=rb.where() if rb else "")
    ctx.floor("record-writers", len(ws), 2)

    # ------------------------------------------------------------ settle
    _settle(ctx, prog)


def _settle(ctx, prog):
    f = ctx.fn(r"gmsol_store::instructions::builder_fee::SettleBuilderFee::<'_>::invoke")
    if not f:
        return
    order = r"AccountLoader::load\(ctx\.accounts\.order\)!"   # canonical: any way of unwrapping the load
    rec_re = r"^(Order::builder_fee_amount\(" + order + r"\)|" + order + r"\.builder_fee_amount)$"
    esc_re = r"^ctx\.accounts\.escrow(\.[0-9a-z_]+)*\.amount$"
    tcs = f.calls_to(r"token::transfer_checked$|token_interface::transfer_checked$|token_2022::transfer_checked$")
    cpis = [c for c in f.calls if re.search(r"(^|::)(invoke|invoke_signed|transfer|transfer_checked|burn|mint_to|close_account)$", c.name or "")]
    ctx.ob("settle:one-transfer", len(tcs) == 1 and len(cpis) == 1, "exactly one token CPI in settlement (%s)" % [c.rshort for c in cpis], where=f.where())
    if len(tcs) != 1:
        return
    tc = tcs[0]
    # semantic: amount <= recorded and amount <= escrow.amount (min() call or compare+select), whatever the syntax
    ok, how = H.is_min_of(f, tc.args[1], rec_re, esc_re)
    ctx.ob("settle:amount", ok, "transfer amount = min(recorded builder_fee_amount, escrow.amount): %s" % how, where=f.where(tc.line))
    # route: which accounts the CPI struct fields derive from, independent of how Options / Boxes are unwrapped
    tcf = H.agg_fields(tc.arg_expr(0), r"(^|::)TransferChecked$")
    roots = {k: sorted(H.account_roots(v)) for k, v in tcf.items()} if tcf else {}
    ctx.ob("settle:route", roots.get("from") == ["escrow"] and roots.get("to") == ["claim_vault"] and roots.get("authority") == ["order"] and
           roots.get("mint") == ["final_output_token"],
           "transfer goes from the order's escrow to the builder's claim vault under the order's authority: %s" % roots, where=f.where(tc.line))
    facts = H.canon_facts(f, tc.bb)
    ctx.ob("settle:nonzero-only", A.has_fact(facts, "!=", rec_re, r"^0$"), "the transfer happens only when the recorded amount != 0", where=f.where(tc.line))
    ok = any(o == "==" and re.search(r"Order::builder\(AccountLoader::load\(ctx\.accounts\.order\)!\)", str(a) + str(b)) and
             re.search(r"Key::key\(.*ctx\.accounts\.builder_user", str(a) + str(b)) for (o, a, b) in facts if b is not None)
    ctx.ob("settle:builder-identity", ok, "the transfer is under order.builder == builder_user.key()", where=f.where(tc.line))
    zs = [w for w in A.field_writes(f, r"builder_fee_amount$") if w["kind"] == "assign"]
    ts = H.success_edge(f, tc)
    okz = len(zs) == 1 and str(zs[0]["rv"]) == "0" and re.match(r"^AccountLoader::load_mut\(ctx\.accounts\.order\)(\?|@Ok\.0)\.builder_fee_amount$", zs[0]["path"]) is not None
    ctx.ob("settle:zeroed", okz, "the record of this order is set to 0 (%s)" % [(w["path"], str(w["rv"])) for w in zs], where=f.where())
    if okz and ts is not None:
        ctx.ob("settle:zero-after-transfer", f.dominates(ts[1], zs[0]["bb"]), "the zero store is dominated by the Ok edge of transfer_checked(..)?", where=f.where())
    else:
        ctx.ob("settle:zero-after-transfer", False, "transfer result is not `?`-propagated or zero store missing", where=f.where())
    n_early = n_full = 0
    good = True
    for bb, k, e in f.exits():
        if k != "ok":
            continue
        fs = H.canon_facts(f, bb)
        if A.has_fact(fs, "==", rec_re, r"^0$"):
            n_early += 1
            good = good and not f.can_reach(tc.bb, bb) and not any(f.can_reach(z["bb"], bb) for z in zs)
        else:
            n_full += 1
            good = good and okz and f.dominates(zs[0]["bb"], bb) and ts is not None and f.dominates(ts[1], bb)
    ctx.ob("settle:exits", good and n_early == 1 and n_full >= 1,
           "Ok exits: %d early (recorded == 0, no transfer, no write) and %d behind transfer + zero store" % (n_early, n_full), where=f.where())
