"""C17 A newly created market starts from the documented default configuration.

Decided on MIR:

 * init-default   every field that `MarketConfig::get` maps (66) is stored exactly once by `MarketConfig::init`, from a
                  constant of `constants::market` named `DEFAULT_<FIELD>`; the 11 exceptions (shared receiver default,
                  abbreviated constant names, market_closed_* starting from their open-market defaults) are tabled in
                  tables/C17.json with their reason and checked against that table;
 * init-complete  no mapped field is left out, none is stored twice, nothing but mapped fields is stored;
 * dead-default   every `DEFAULT_*` constant of constants/market.rs is read by MarketConfig::init (a default that is
                  declared but never applied is how a missing/wrong default looks statically);
 * init-flag      each MarketConfigFlag is either set in init from its `DEFAULT_*` boolean or tabled as left at the
                  zero-initialised `false`;
 * pools-init     Pools::init gives each of the 16 pool kinds (field via Pools::get) exactly one `set_is_pure`, with the
                  `is_pure` parameter — except PositionImpact, BorrowingFactor, TotalBorrowing which get the constant false;
                  set_is_pure forwards to Pool::set_is_pure which stores 1 for true and 0 for false;
 * market-init    Market::init derives is_pure from `meta.long_token_mint == meta.short_token_mint` (the two fields it has
                  just stored from two different parameters), passes that value to the Pure flag and to Pools::init, and
                  cannot return Ok without Pools::init and MarketConfig::init; the only caller passes long/short mints in
                  that order; the market account is created by an Anchor `init` constraint (zero-initialised).
"""
import json
import os
import re

from .. import analyses as A
from .. import h_C as H
from .. import h_C_cfg as G
from ..accounts import AccountsStruct

TABLE = os.path.join(os.path.dirname(os.path.dirname(os.path.dirname(os.path.abspath(__file__)))), "tables", "C17.json")
CONST_MOD = "gmsol_store::constants::market::"


def _const_def(rv):
    """rvalue `use <const>` -> (def path or None, int string or None)"""
    if rv[0] == "use" and isinstance(rv[1], dict):
        return rv[1].get("def"), rv[1].get("int")
    return None, None


def run(ctx):
    prog = ctx.prog(["gmsol_store", "gmsol_utils", "gmsol_model"])
    table = json.load(open(TABLE))
    ctx.explanation = (
        "The stores of MarketConfig::init are read off the MIR (field <- resolved constant definition) and compared with "
        "the key table of MarketConfig::get, with the naming convention DEFAULT_<FIELD> and with the list of DEFAULT_* "
        "constants; Pools::init is compared with the PoolKind table of Pools::get; Market::init's is_pure provenance and "
        "must-call structure are checked on the CFG.")
    ctx.not_decided = (
        "The numeric values of the DEFAULT_* constants themselves (they are the documentation). Zero-initialisation of a "
        "freshly created account is Anchor's `init` (trusted); clocks initialisation is not part of this property.")
    ctx.rule("init-default", "config field <- DEFAULT_<FIELD> of constants::market (tabled exceptions)")
    ctx.rule("init-complete", "every field mapped by MarketConfig::get is stored exactly once by init; nothing else is")
    ctx.rule("dead-default", "every DEFAULT_* constant of constants::market is read by MarketConfig::init")
    ctx.rule("init-flag", "each MarketConfigFlag: set from its DEFAULT_* bool, or tabled as zero-initialised false")
    ctx.rule("pools-init", "each pool kind gets set_is_pure(is_pure) once; the three tabled kinds get false; 1/0 encoding")
    ctx.rule("market-init", "is_pure := (long_token_mint == short_token_mint); Ok only after Pools::init and MarketConfig::init")

    _config_init(ctx, prog, table)
    _pools_init(ctx, prog, table)
    _market_init(ctx, prog)


def _config_init(ctx, prog, table):
    mc = ctx.adt(r"^gmsol_store::states::market::config::MarketConfig")
    key = ctx.adt(r"^gmsol_utils::market::MarketConfigKey")
    init = ctx.fn(r"^gmsol_store::states::market::config::MarketConfig::init")
    get = ctx.fn(r"^gmsol_store::states::market::config::MarketConfig::get")
    if None in (mc, key, init, get):
        return
    mapped, _ = G.key_table(prog, get, key, r"^%s$" % re.escape(get.param_name(1)))
    mapped_fields = sorted(f for f in mapped.values() if f)
    exc = table["default_exceptions"]
    stores = {}
    other = []
    for bb, si, s in init.statements():
        if s[0] != "=" or len(s[1]) < 2:
            continue
        path = H.place_path(init, s[1])
        m = re.match(r"^self\.([a-z0-9_]+)$", path)
        if not m:
            if path.startswith("self"):
                other.append(path)
            continue
        d, iv = _const_def(s[2])
        stores.setdefault(m.group(1), []).append((d, iv, init.expr(s[2][1]) if s[2][0] == "use" else None))
    # a store must happen on every path: init is straight-line today; require every store block to dominate the return
    n = 0
    used = set()
    for fld in mapped_fields:
        st = stores.get(fld, [])
        if len(st) != 1:
            ctx.ob("init-complete:" + fld, False, "field `%s` (mapped by MarketConfig::get) is stored %d times by init" % (fld, len(st)), where=init.where())
            continue
        d, iv, e = st[0]
        n += 1
        if d is None or not d.startswith(CONST_MOD):
            ctx.ob("init-default:" + fld, False, "`%s` is initialised from %s, not from a constant of constants::market" % (fld, e), where=init.where())
            continue
        cname = d[len(CONST_MOD):]
        used.add(cname)
        want = "DEFAULT_" + fld.upper()
        if fld in exc:
            ok = cname == exc[fld]["const"] and cname != want
            ctx.ob("init-default:" + fld, ok, "`%s` <- %s (tabled exception: %s)%s" % (
                fld, cname, exc[fld]["reason"], "" if ok else " — table says %s%s" % (exc[fld]["const"], "; the regular name now exists/applies" if cname == want else "")),
                where=init.where())
        else:
            ctx.ob("init-default:" + fld, cname == want, "`%s` <- %s (expected %s)" % (fld, cname, want), where=init.where(),
                   detail={"value": iv})
    ctx.floor("init-default", n, 66)
    extra = sorted(f for f in stores if f not in mapped_fields)
    blocks_ok = all(init.dominates(bb, rb) for bb, _, s in init.statements() if s[0] == "=" and len(s[1]) >= 2
                    for rb in [b for b, blk in enumerate(init.blocks) if blk["t"][0] == "ret"])
    ctx.ob("init-complete:MarketConfig", not extra and not other and blocks_ok and len(mapped_fields) == len(set(mapped_fields)),
           "init stores %d mapped fields unconditionally; stores outside the key table: %s %s" % (len(mapped_fields), extra, other), where=init.where())
    # dead defaults
    consts = sorted(k[len(CONST_MOD):] for k, c in prog.consts.items() if k.startswith(CONST_MOD + "DEFAULT_"))
    flag_consts = set()
    for cs in init.calls:
        if cs.short == "MarketConfig::set_flag" and len(cs.args) == 3 and isinstance(cs.args[2], dict) and cs.args[2].get("def", "").startswith(CONST_MOD):
            flag_consts.add(cs.args[2]["def"][len(CONST_MOD):])
    n = 0
    other_users = table.get("default_other_users", {})
    for c in consts:
        n += 1
        ok = c in used or c in flag_consts or c in other_users
        ctx.ob("dead-default:" + c, ok, "constant %s is %s" % (c, "applied by MarketConfig::init" if (c in used or c in flag_consts) else (
            "tabled: " + other_users[c] if c in other_users else "declared but never applied by MarketConfig::init (missing or wrong default)")),
            where=prog.consts[CONST_MOD + c]["file"] + ":%d" % prog.consts[CONST_MOD + c]["line"])
    ctx.floor("dead-default", n, 62)
    # flags
    fl = ctx.adt(r"^gmsol_utils::market::MarketConfigFlag")
    if fl is None:
        return
    setcalls = {}
    for cs in init.calls:
        if cs.short == "MarketConfig::set_flag":
            m = re.match(r"^MarketConfigFlag::([A-Za-z0-9]+)\{\}$", str(cs.arg_expr(1)))
            if m and str(cs.arg_expr(0)) == "self":
                setcalls.setdefault(m.group(1), []).append(cs)
    n = 0
    fexc = table["flag_exceptions"]
    for v in fl.variant_names():
        n += 1
        cs = setcalls.get(v, [])
        if v in fexc and fexc[v].get("unset"):
            ctx.ob("init-flag:" + v, not cs, "flag %s is not set by init (tabled: %s)" % (v, fexc[v]["reason"]), where=init.where())
            continue
        if len(cs) != 1:
            ctx.ob("init-flag:" + v, False, "flag %s is set %d times by init and is not tabled as zero-initialised" % (v, len(cs)), where=init.where())
            continue
        a = cs[0].args[2]
        d = a.get("def") if isinstance(a, dict) else None
        cname = d[len(CONST_MOD):] if d and d.startswith(CONST_MOD) else None
        want = fexc[v]["const"] if v in fexc else "DEFAULT_" + G.snake(v).upper()
        uncond = all(init.dominates(cs[0].bb, rb) for rb in [b for b, blk in enumerate(init.blocks) if blk["t"][0] == "ret"])
        ctx.ob("init-flag:" + v, cname == want and uncond, "flag %s <- %s (expected %s%s)" % (
            v, cname or str(cs[0].arg_expr(2)), want, ", tabled: " + fexc[v]["reason"] if v in fexc else ""), where=cs[0].where())
    ctx.floor("init-flag", n, 4)
    extra = sorted(set(setcalls) - set(fl.variant_names()))
    if extra:
        ctx.ob("init-flag:<unknown>", False, "init sets unknown flags %s" % extra, where=init.where())


def _pools_init(ctx, prog, table):
    pools = ctx.adt(r"^gmsol_store::states::market::pool::Pools")
    kind = ctx.adt(r"^gmsol_model::pool::PoolKind")
    init = ctx.fn(r"^gmsol_store::states::market::pool::Pools::init")
    get = ctx.fn(r"^gmsol_store::states::market::pool::Pools::get")
    if None in (pools, kind, init, get):
        return
    mapped, _ = G.key_table(prog, get, kind, r"^%s$" % re.escape(get.param_name(1)))
    param = init.param_name(1)
    calls = {}
    for cs in init.calls:
        if cs.short == "PoolStorage::set_is_pure":
            m = re.match(r"^self\.([a-z0-9_]+)$", str(cs.arg_expr(0)))
            calls.setdefault(m.group(1) if m else str(cs.arg_expr(0)), []).append(cs)
    rets = [b for b, blk in enumerate(init.blocks) if blk["t"][0] == "ret"]
    impure = table["always_impure_pools"]
    n = 0
    for v in kind.variant_names():
        fld = mapped.get(v)
        if fld is None:
            ctx.ob("pools-init:" + v, False, "pool kind %s is not mapped to a field by Pools::get" % v, where=get.where())
            continue
        n += 1
        cs = calls.get(fld, [])
        if len(cs) != 1:
            ctx.ob("pools-init:" + v, False, "pool `%s` receives %d set_is_pure calls in Pools::init" % (fld, len(cs)), where=init.where())
            continue
        a = cs[0].arg_expr(1)
        uncond = all(init.dominates(cs[0].bb, rb) for rb in rets)
        if v in impure:
            ok = H.const_bool(a) is False
            ctx.ob("pools-init:" + v, ok and uncond, "pool %s (%s) is marked with constant %s (tabled always impure: %s)" % (v, fld, a, impure[v]), where=cs[0].where())
        else:
            ctx.ob("pools-init:" + v, str(a) == param and uncond, "pool %s (%s) is marked with `%s` (expected the `%s` parameter)" % (v, fld, a, param), where=cs[0].where())
    ctx.floor("pools-init", n, 16)
    extra = sorted(set(calls) - set(f for f in mapped.values() if f))
    ctx.ob("pools-init:<other>", not extra, "set_is_pure on fields outside the PoolKind table: %s" % extra, where=init.where())
    # forwarding + encoding
    f = ctx.fn(r"^gmsol_store::states::market::pool::PoolStorage::set_is_pure")
    if f is not None:
        cs = [c for c in f.calls if c.short == "Pool::set_is_pure"]
        ok = len(cs) == 1 and str(cs[0].arg_expr(0)) == "self.pool" and str(cs[0].arg_expr(1)) == f.param_name(1)
        ctx.ob("pools-init:PoolStorage::set_is_pure", ok, "PoolStorage::set_is_pure forwards its flag to self.pool: %s" % (
            [(str(c.arg_expr(0)), str(c.arg_expr(1))) for c in cs]), where=f.where())
    f = ctx.fn(r"^gmsol_store::states::market::pool::Pool::set_is_pure")
    if f is not None:
        tab = {}
        for p in H.paths(f):
            t = H.truth_on_path(p, r"^%s$" % re.escape(f.param_name(1)))
            st = H.stores_on_path(f, p["blocks"])
            if len(st) == 1 and st[0]["dest"] == "self.is_pure":
                v = st[0]["value"]
                tab[t] = (v.a[1].get("int") if v.k == "const" and len(v.a) > 1 and isinstance(v.a[1], dict) else str(v))
            else:
                tab[t] = "stores %s" % [s["dest"] for s in st]
        ctx.ob("pools-init:Pool::set_is_pure", tab == {True: "1", False: "0"},
               "Pool::set_is_pure stores %s into self.is_pure (need true -> 1, false -> 0, the values Pool::is_pure decodes)" % tab, where=f.where())


def _market_init(ctx, prog):
    f = ctx.fn(r"^gmsol_store::states::market::Market::init")
    if f is None:
        return
    pools = [c for c in f.calls if c.short == "Pools::init"]
    cfg = [c for c in f.calls if c.short == "MarketConfig::init"]
    flag = [c for c in f.calls if c.short == "Market::set_flag" and str(c.arg_expr(1)) == "MarketFlag::Pure{}"]
    ok = len(pools) == 1 and len(cfg) == 1 and len(flag) == 1
    msg = "Pools::init x%d, MarketConfig::init x%d, set_flag(Pure) x%d" % (len(pools), len(cfg), len(flag))
    if ok:
        e = pools[0].arg_expr(1)
        e2 = flag[0].arg_expr(2)
        c = A.as_cmp(e)
        sides = sorted([str(c[1]), str(c[2])]) if c and c[0] == "==" else None
        prov = sides == ["self.meta.long_token_mint", "self.meta.short_token_mint"]
        # the two compared fields were stored from two different parameters, before the comparison
        src = {}
        for w in A.field_writes(f, r"^self\.meta\.(long|short)_token_mint$"):
            if w["kind"] == "assign":
                src.setdefault(w["path"], []).append((w["bb"], str(w["rv"])))
        cmp_bb = e.a[2].bb if e.k == "call" and len(e.a) > 2 else None
        distinct = (len(src) == 2 and all(len(v) == 1 for v in src.values())
                    and src["self.meta.long_token_mint"][0][1] != src["self.meta.short_token_mint"][0][1]
                    and all(v[0][1] in [f.param_name(i) for i in range(f.arg_count)] for v in src.values()))
        before = cmp_bb is not None and all(f.dominates(v[0][0], cmp_bb) for v in src.values()) if distinct else False
        same = str(e) == str(e2) and str(pools[0].arg_expr(0)) == "self.state.pools" and str(cfg[0].arg_expr(0)) == "self.config"
        ok = prov and distinct and before and same
        msg = "is_pure = %s (fields stored from %s before the comparison: %s); same value to the Pure flag and Pools::init: %s" % (
            e, {k: v[0][1] for k, v in src.items()} if src else "?", before, same)
    ctx.ob("market-init:is-pure", ok, "Market::init: " + msg, where=f.where())
    # Ok exits only after both inits
    bad = []
    n_ok = 0
    for p in H.paths(f):
        from ..model import classify_result
        if p["ret"] is None or classify_result(p["ret"]) != "ok":
            continue
        n_ok += 1
        names = [c.short for c in p["calls"]]
        for need in ("Pools::init", "MarketConfig::init", "Market::set_flag"):
            if need not in names:
                bad.append("an Ok path skips %s" % need)
    ctx.ob("market-init:must-init", not bad and n_ok >= 1, "Market::init: %d Ok path(s), each through Pools::init, MarketConfig::init and set_flag(Pure)%s" % (
        n_ok, "; " + "; ".join(sorted(set(bad))) if bad else ""), where=f.where())
    # callers
    callers = [c for c in prog.callers_of(f.id) if not getattr(c, "is_closure_ref", False)]
    okc = len(callers) >= 1
    msgs = []
    li, si = f.param_index("long_token_mint") if "long_token_mint" in [f.param_name(i) for i in range(f.arg_count)] else None, None
    names = [f.param_name(i) for i in range(f.arg_count)]
    # positions of the two parameters stored into meta.long/short
    pos = {}
    for w in A.field_writes(f, r"^self\.meta\.(long|short)_token_mint$"):
        if w["kind"] == "assign" and str(w["rv"]) in names:
            pos[w["path"].rsplit(".", 1)[1]] = names.index(str(w["rv"]))
    for c in callers:
        if len(pos) != 2:
            okc = False
            break
        a_long = str(c.fn.expr(c.args[pos["long_token_mint"]]))
        a_short = str(c.fn.expr(c.args[pos["short_token_mint"]]))
        good = "long_token_mint" in a_long and "short" not in a_long and "short_token_mint" in a_short and "long" not in a_short
        okc = okc and good
        msgs.append("%s passes (%s, %s)" % (c.fn.short, a_long, a_short))
    ctx.ob("market-init:caller-order", okc, "callers of Market::init pass the long/short mints in order: %s" % msgs, where=f.where())
    # zero-initialised account
    acc = ctx.adt(r"^gmsol_store::instructions::market::InitializeMarket")
    if acc is not None:
        facts = set(AccountsStruct(acc).facts())
        ctx.ob("market-init:zeroed-account", "init:market" in facts, "InitializeMarket.market is created by an Anchor `init` constraint (fresh zeroed account => pool amounts start at 0)",
               where="%s:%d" % (acc.file, acc.line))
