"""C33 Referral relationships are write-once and never self-referential.

Decided:
 * write-once     : `Referral::set_referrer` stores `self.referrer` only under `self.referrer == <constant>` and
                    `referrer_user.owner != <constant>`, with the value `referrer_user.owner`; `Referral::set_code`
                    stores `self.code` only under `self.code == <constant>`; both are atomic (no Err behind a store).
 * single-writer  : crate-wide scan — `Referral.referrer` is stored only in set_referrer; `Referral.code` only in
                    set_code and unchecked_complete_code_transfer; `ReferralCodeV2.owner` only in init and
                    unchecked_complete_code_transfer; `next_owner` only in init and set_next_owner.
 * transfer       : at the three stores of `unchecked_complete_code_transfer`: receiver.referral.code == <constant>,
                    receiver.owner == code.next_owner, both users initialised; the receiver gets the sender's code,
                    `code.owner := receiver.owner`, and the sender's code is reset to DEFAULT_PUBKEY in the same
                    infallible tail (the code belongs to exactly one user at a time).
 * no-mutual      : in the `set_referrer` handler the fact `referrer_user.referral.referrer != user.owner` holds at the
                    call, which writes `user.referral` with `referrer_user`.
 * constraints    : the declarative account constraints that make the relationship well-formed are present
                    (SelfReferral key inequality, owner == code.owner, code == code account key, has_one owner with owner
                    Signer, next_owner Signer with receiver.owner == next_owner ...).
 * who-may-call   : complete_code_transfer only from accept_referral_code; set_next_owner only from transfer (with
                    receiver_user.owner) and cancel (with the signing owner); set_referrer/set_code from their handlers.
"""
import re

from .. import analyses as A
from .. import h_D as H
from ..accounts import AccountsStruct

SU = r"gmsol_store::states::user::"
IU = r"gmsol_store::instructions::user::"
PROMOTED_PK = r"::promoted\[\d+\]$"


def _is_const_pubkey(e):
    """A compile-time constant `&Pubkey` (promoted `&DEFAULT_PUBKEY`) or the named constant itself."""
    if e.k != "const":
        return False
    if str(e).endswith("DEFAULT_PUBKEY"):
        return True
    c = e.a[1] if len(e.a) > 1 and isinstance(e.a[1], dict) else {}
    return bool(c.get("promoted")) and "Pubkey" in c.get("ty", "")


def _fact_const(facts, op, a_re):
    for o, a, b in facts:
        if b is None:
            continue
        for x, y in ((a, b), (b, a)):
            if o == op and re.search(a_re, str(x)) and _is_const_pubkey(y):
                return True
    return False


def run(ctx):
    prog = ctx.prog(["gmsol_store"])
    ctx.explanation = (
        "Write-once and ownership clauses are decided as guarded writes: the comparison facts holding at every store "
        "into Referral.referrer / Referral.code / ReferralCodeV2.owner are computed from the dominating "
        "require_keys_* edges, a crate-wide scan enumerates every store into those fields, reachability shows the "
        "stores are atomic, the handler-level MutualReferral fact holds at the call that writes, and the "
        "declarative Anchor constraints that express 'not yourself', 'owner of the code', 'accepted by the next "
        "owner' are required to be present.")
    ctx.not_decided = (
        "Uniqueness of a code across accounts (PDA seeds, runtime); Anchor's enforcement of the constraints; the "
        "identity of the compile-time constant the unset test compares with (the driver does not dump promoted "
        "constants: `&DEFAULT_PUBKEY` is visible only as 'a promoted &Pubkey constant'); referral cycles longer than two.")
    ctx.rule("write-once", "referrer / code are stored only when still unset; values have the right provenance; atomic")
    ctx.rule("single-writer", "crate-wide enumeration of stores into referrer, code, code.owner, code.next_owner")
    ctx.rule("transfer", "complete_code_transfer: guarded, moves the code to exactly one new owner, atomic")
    ctx.rule("no-mutual", "MutualReferral fact holds at the writing call of the set_referrer handler")
    ctx.rule("constraints", "required declarative account constraints are present")
    ctx.rule("who-may-call", "state methods are reachable only from their instruction handlers with the right arguments")

    sr = ctx.fn(SU + "Referral::set_referrer")
    sc = ctx.fn(SU + "Referral::set_code")
    ct = ctx.fn(SU + "UserHeader::unchecked_complete_code_transfer")
    tc = ctx.fn(SU + "UserHeader::unchecked_transfer_code")
    sn = ctx.fn(SU + "ReferralCodeV2::set_next_owner")
    ci = ctx.fn(SU + "ReferralCodeV2::init")
    if None in (sr, sc, ct, tc, sn, ci):
        return

    # ---- write-once
    ws = [w for w in H.state_stores(sr, r".") if w["path"] == "self.referrer"]
    ok = len(ws) == 1
    if ok:
        facts = H.facts_at(sr, ws[0]["bb"])
        a = _fact_const(facts, "==", r"^self\.referrer$")
        b = _fact_const(facts, "!=", r"^referrer_user\.owner$")
        v = str(ws[0]["rv"]) == "referrer_user.owner"
        ok = a and b and v
        msg = "store under self.referrer == <unset constant>: %s; referrer_user.owner != <unset constant>: %s; value = referrer_user.owner: %s" % (a, b, v)
    else:
        msg = "%d stores into self.referrer" % len(ws)
    ctx.ob("write-once:Referral::set_referrer", ok, "set_referrer: " + msg, where=sr.where())
    others = sorted(w["path"] for w in H.state_stores(sr, r".") if w["path"] != "self.referrer")
    ctx.ob("write-once:Referral::set_referrer:other-stores", others == ["referrer_user.referral.referee_count"],
           "set_referrer's only other store is the referee counter: %s" % others, where=sr.where())
    ws = [w for w in H.state_stores(sc, r".")]
    ok = len(ws) == 1 and ws[0]["path"] == "self.code" and str(ws[0]["rv"]) == "code" and _fact_const(H.facts_at(sc, ws[0]["bb"]), "==", r"^self\.code$")
    ctx.ob("write-once:Referral::set_code", ok, "set_code stores `code` into self.code only under self.code == <unset constant>: %s" % ok, where=sc.where())
    H.atomic(ctx, "write-once:atomic:Referral::set_referrer", sr, root_re=r"^(self|referrer_user)\b", floor=2)
    H.atomic(ctx, "write-once:atomic:Referral::set_code", sc, floor=1)
    for nm in ("referrer", "code"):
        g = ctx.fn(SU + "Referral::" + nm)
        if g is not None:
            ex = [str(e) for _, _, e in g.exits()]
            ctx.ob("write-once:reader:" + nm, ex == ["pubkey::optional_address(self.%s)" % nm], "Referral::%s() reads the same field through optional_address: %s" % (nm, ex), where=g.where())
    ctx.floor("write-once", 7, 7)

    # ---- single-writer
    want = {
        ("Referral", "referrer"): {"Referral::set_referrer"},
        ("Referral", "code"): {"Referral::set_code", "UserHeader::unchecked_complete_code_transfer"},
        ("ReferralCodeV2", "owner"): {"ReferralCodeV2::init", "UserHeader::unchecked_complete_code_transfer"},
        ("ReferralCodeV2", "next_owner"): {"ReferralCodeV2::init", "ReferralCodeV2::set_next_owner"},
    }
    found = {k: set() for k in want}
    for g in prog.fns.values():
        if g.crate != "gmsol_store":
            continue
        sites = [(st[1]) for bb, si, st in g.statements() if st[0] == "=" and len(st[1]) > 1] + [cs.dest for cs in g.calls if len(cs.dest) > 1]
        for pl in sites:
            fl = [p[1:] for p in pl[1:] if isinstance(p, str) and p.startswith(".")]
            ty = g.locals[pl[0]][0]
            if not fl:
                continue
            if fl[-1] in ("referrer", "code") and (re.search(r"states::user::Referral\b", ty) and len(fl) == 1
                                                    or (re.search(r"states::user::UserHeader\b", ty) and fl[:1] == ["referral"] and len(fl) == 2)):
                found[("Referral", fl[-1])].add(g.short)
            if len(fl) == 1 and fl[0] in ("owner", "next_owner") and re.search(r"states::user::ReferralCodeV2\b", ty):
                found[("ReferralCodeV2", fl[0])].add(g.short)
            # whole-struct overwrite of a Referral / a UserHeader.referral
            if (fl == ["referral"] and re.search(r"states::user::UserHeader\b", ty)):
                found[("Referral", "referrer")].add(g.short + " (whole referral)")
    for k, v in want.items():
        ctx.ob("single-writer:%s.%s" % k, found[k] == v, "stores into %s.%s occur in %s (expected %s)" % (k[0], k[1], sorted(found[k]), sorted(v)), where=sr.where())
    ctx.floor("single-writer", 4, 4)

    # ---- transfer
    ws = {w["path"]: w for w in H.state_stores(ct, r".")}
    vals = {k: str(w["rv"]) for k, w in ws.items()}
    exp = {"receiver_user.referral.code": "self.referral.code", "code.owner": "receiver_user.owner", "self.referral.code": "pubkey::DEFAULT_PUBKEY"}
    ctx.ob("transfer:stores", vals == exp, "complete_code_transfer stores %s (expected %s)" % (vals, exp), where=ct.where())
    good = bool(ws)
    for k, w in ws.items():
        facts = H.facts_at(ct, w["bb"])
        good = good and _fact_const(facts, "==", r"^receiver_user\.referral\.code$") and A.has_fact(facts, "==", r"^receiver_user\.owner$", r"^code\.next_owner$") \
            and A.has_bool_fact(facts, True, r"^UserHeader::is_initialized\(receiver_user\)$") and A.has_bool_fact(facts, True, r"^UserHeader::is_initialized\(self\)$")
    ctx.ob("transfer:guards", good,
           "at every store: receiver_user.referral.code == <unset constant>, receiver_user.owner == code.next_owner, both users initialised: %s" % good, where=ct.where())
    H.atomic(ctx, "transfer:atomic", ct, root_re=r"^(self|code|receiver_user)\b", floor=3)
    # propose: set_next_owner(code, receiver_user.owner) under receiver.code unset
    cs = [c for c in tc.calls if c.short == "ReferralCodeV2::set_next_owner"]
    ok = len(cs) == 1 and [str(cs[0].arg_expr(i)) for i in range(2)] == ["code", "receiver_user.owner"] \
        and _fact_const(H.facts_at(tc, cs[0].bb), "==", r"^receiver_user\.referral\.code$") and not H.state_stores(tc, r".")
    ctx.ob("transfer:propose", ok, "unchecked_transfer_code only proposes: set_next_owner(code, receiver_user.owner) under receiver's code unset, no direct store: %s" % ok, where=tc.where())
    w_ = H.state_stores(sn, r".")
    ok = len(w_) == 1 and w_[0]["path"] == "self.next_owner" and str(w_[0]["rv"]) == "next_owner"
    ctx.ob("transfer:set_next_owner", ok, "set_next_owner stores only self.next_owner := next_owner: %s" % [(w["path"], str(w["rv"])) for w in w_], where=sn.where())
    wi = {w["path"]: str(w["rv"]) for w in H.state_stores(ci, r".")}
    ok = wi.get("self.owner") == "owner" and wi.get("self.next_owner") == "owner"
    ctx.ob("transfer:init", ok, "ReferralCodeV2::init sets owner and next_owner to the creating owner: %s" % wi, where=ci.where())
    ctx.floor("transfer", 6, 6)

    # ---- no-mutual
    h = ctx.fn(IU + "set_referrer")
    if h is not None:
        cs = [c for c in h.calls if c.short == "Referral::set_referrer"]
        ok = len(cs) == 1
        if ok:
            c = cs[0]
            facts = H.facts_at(h, c.bb)
            a = A.has_fact(facts, "!=", r"^AccountLoader::load\(ctx\.accounts\.referrer_user\)\?\.referral\.referrer$", r"^AccountLoader::load\(ctx\.accounts\.user\)\?\.owner$")
            b = [str(c.arg_expr(i)) for i in range(2)] == ["AccountLoader::load_mut(ctx.accounts.user)?.referral", "AccountLoader::load_mut(ctx.accounts.referrer_user)?"]
            p = H.propagated(h, c) and H.must_pass(h, 0, sorted(h.ok_exit_blocks()), [H.ok_edge(h, c)])
            ok = a and b and p
            ctx.ob("no-mutual:set_referrer", ok,
                   "handler set_referrer: at the writing call referrer_user.referral.referrer != user.owner holds (%s); it writes user.referral with referrer_user (%s); Ok only through it (%s)" % (a, b, p), where=c.where())
        else:
            ctx.ob("no-mutual:set_referrer", False, "expected one Referral::set_referrer call, found %d" % len(cs), where=h.where())
    ctx.floor("no-mutual", 1, 1)

    # ---- constraints
    REQ = {
        "SetReferrer": ["signer:owner", "has_one:user->owner", "has_one:user->store", "has_one:referrer_user->store", "has_one:referral_code->store",
                        "constraint:referrer_user:referrer_user.key()!=user.key()",
                        "constraint:referrer_user:referral_code.load()?.owner==referrer_user.load()?.owner",
                        "constraint:referrer_user:referral_code.key()==referrer_user.load()?.referral.code",
                        "constraint:referrer_user:referrer_user.load()?.is_initialized()",
                        "constraint:user:user.load()?.is_initialized()"],
        "AcceptReferralCode": ["signer:next_owner", "constraint:receiver_user:next_owner.key()==receiver_user.load()?.owner",
                               "constraint:receiver_user:receiver_user.key()!=user.key()",
                               "constraint:user:referral_code.load()?.owner==user.load()?.owner",
                               "constraint:user:referral_code.key()==user.load()?.referral.code",
                               "has_one:user->store", "has_one:referral_code->store", "has_one:receiver_user->store"],
        "TransferReferralCode": ["signer:owner", "has_one:user->owner", "constraint:user:referral_code.load()?.owner==user.load()?.owner",
                                 "constraint:user:referral_code.key()==user.load()?.referral.code", "constraint:receiver_user:receiver_user.key()!=user.key()",
                                 "has_one:user->store", "has_one:referral_code->store", "has_one:receiver_user->store"],
        "CancelReferralCodeTransfer": ["signer:owner", "has_one:user->owner", "constraint:user:referral_code.load()?.owner==user.load()?.owner",
                                       "constraint:user:referral_code.key()==user.load()?.referral.code", "has_one:user->store", "has_one:referral_code->store"],
        "InitializeReferralCode": ["signer:owner", "init:referral_code", "has_one:user->owner", "has_one:user->store", "constraint:user:user.load()?.is_initialized()"],
    }
    n = 0
    for nm, req in REQ.items():
        adt = ctx.adt(IU + nm)
        if adt is None:
            continue
        have = set(AccountsStruct(adt).facts())
        miss = [r for r in req if r not in have]
        n += 1
        ctx.ob("constraints:" + nm, not miss, "%s: %d required constraints present; MISSING: %s" % (nm, len(req) - len(miss), miss), where="%s:%d" % (adt.file, adt.line))
    ctx.floor("constraints", n, 5)

    # ---- who-may-call
    def only(fn, allowed_re, key, args=None):
        cs, bad = H.callers_within(prog, fn, allowed_re)
        ok = not bad and len(cs) >= 1
        amsg = ""
        if args:
            for c in cs:
                got = [str(c.arg_expr(i)) for i in range(len(c.args))]
                w = args.get(c.fn.name)
                if w is not None and got != w:
                    ok = False
                    amsg += "; %s passes %s (want %s)" % (c.fn.short, got, w)
        ctx.ob("who-may-call:" + key, ok, "%s callers: %s; offenders: %s%s" % (key, sorted(set(c.fn.short for c in cs)), [c.fn.short for c in bad], amsg), where=fn.where())

    only(ct, IU + r"accept_referral_code$", "unchecked_complete_code_transfer",
         {"accept_referral_code": ["AccountLoader::load_mut(ctx.accounts.user)?", "AccountLoader::load_mut(ctx.accounts.referral_code)?", "AccountLoader::load_mut(ctx.accounts.receiver_user)?"]})
    only(tc, IU + r"transfer_referral_code$", "unchecked_transfer_code",
         {"transfer_referral_code": ["AccountLoader::load(ctx.accounts.user)?", "AccountLoader::load_mut(ctx.accounts.referral_code)?", "AccountLoader::load(ctx.accounts.receiver_user)?"]})
    only(sn, SU + r"UserHeader::unchecked_transfer_code$|" + IU + r"cancel_referral_code_transfer$", "set_next_owner",
         {"cancel_referral_code_transfer": ["AccountLoader::load_mut(ctx.accounts.referral_code)?", "ctx.accounts.owner.key"]})
    only(sr, IU + r"set_referrer$", "Referral::set_referrer")
    only(sc, IU + r"initialize_referral_code$", "Referral::set_code",
         {"initialize_referral_code": ["AccountLoader::load_mut(ctx.accounts.user)?.referral", "Key::key(ctx.accounts.referral_code)"]})
    only(ci, IU + r"initialize_referral_code$", "ReferralCodeV2::init")
    irc = ctx.fn(IU + "initialize_referral_code")
    if irc is not None:
        c = [x for x in irc.calls if x.short == "ReferralCodeV2::init"]
        ok = len(c) == 1 and str(c[0].arg_expr(4)) == "ctx.accounts.owner.key" and str(c[0].arg_expr(2)) == "code"
        ctx.ob("who-may-call:init-owner", ok, "initialize_referral_code initialises the code account with the signing owner: %s" % ok, where=irc.where())
    ctx.floor("who-may-call", 7, 7)
