"""Per-property MANIFEST metadata (level text, trusted base, technique). Kept next to the rules."""
PROPS = {
 "C19": {
  "technique": "MIR dominance (must-pass-through) + resolved call graph who-may-call + account-constraint tables",
  "text": "Static, for every instruction of the 5 programs (184): role-gated handlers run nothing before the role check and continue only on its Ok edge (dominance on MIR), the role constant resolved through the helper bodies equals the documented/tabled role; every other instruction carries the structural witness of its reviewed class; unchecked_* handlers are reachable only behind a gate; auth primitives return Ok only under the positive role test; no reviewed binding constraint was removed. This covers all instructions and all paths, which no test reaches (the suite never executes an instruction).",
  "note": "Trusted: rustc MIR, Anchor's generated constraint checks and Solana signer/atomicity semantics; role-store set semantics are C18's. Tables in tables/C19.json were frozen after reading each entry.",
 },
}

NOT_APPLICABLE = {
 "C42": "Validity, boundedness and optimality of Bellman-Ford/DFS swap paths are properties of graph values and search histories; no structural necessary condition exists that is not a frozen code shape, so no honest static rule is offered.",
}
