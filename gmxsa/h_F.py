"""Helpers shared by the rules of group F (C30, C31, C32, C36, C37, C38, C39).

Everything here works on the compiler facts (MIR expressions / CFG); nothing matches source text.

 peel / checked_op      — see through `?`, `ok_or(_else)`, `map_err`, overflow-asserted `a+b` to the arithmetic primitive
 leaves                 — the opaque atoms (params, fields, constants, calls without args) an expression is built from
 place_chain            — type-resolved field chain of a MIR place: [(adt id, field)]
 field_writers          — who-may-write: every store / `&mut` borrow of ADT field `T.f` in a set of crates
 writes_to              — stores of one function to places matching a regex (with the stored expression)
 atomic_update          — A3(b): no Err exit reachable after the first store (fallible `&mut` callees must be listed)
 ok_facts               — comparison/bool facts that hold at every Ok exit
 must_pass              — A2: every path from a block to a return passes through one of the given blocks
 try_ok_block           — block entered on the Continue edge of the `?` applied to a call
"""
import re

from . import analyses as A
from .model import E, short_path, CallSite as CallSiteT

WRAPPERS = {"Option::ok_or_else", "Option::ok_or", "Result::map_err", "Result::ok", "Option::ok_or_else"}


SUCCESS_VARIANTS = ("Some", "Ok", "Continue")


def unwrap_success(e):
    """If `e` denotes the success payload of a fallible value X — written `X?`, `ok_or(_else)(X, ..)?`, `map_err(X, ..)?`,
    or bound by a pattern (`let Some(v) = X else {..}` / `match X { Ok(v) => .. }`, i.e. `X@Some.0` / `X@Ok.0`) — return X
    (with the error-mapping wrappers removed); else None. All these forms mean: "the value X carried, on the path where X
    succeeded"; the failing path never reaches a use of the payload."""
    if e.k == "try":
        x = e.a[0]
    elif e.k == "field" and e.a[1] == "0" and e.a[0].k == "variant" and e.a[0].a[1] in SUCCESS_VARIANTS:
        x = e.a[0].a[0]
    else:
        return None
    while True:
        if x.k == "trybranch":
            x = x.a[0]
        elif x.k == "call" and x.a[0] in WRAPPERS and x.a[1]:
            x = x.a[1][0]
        else:
            return x


def peel(e):
    """Strip success-unwrapping (`?`, `@Some.0`, `@Ok.0`), ok_or/ok_or_else/map_err wrappers and the `.0` of an
    overflow-asserted binary op."""
    while True:
        x = unwrap_success(e)
        if x is not None:
            e = x
        elif e.k == "trybranch":
            e = e.a[0]
        elif e.k == "call" and e.a[0] in WRAPPERS and e.a[1]:
            e = e.a[1][0]
        elif e.k == "field" and e.a[1] == "0" and e.a[0].k == "bin" and e.a[0].a[0].endswith("WithOverflow"):
            e = e.a[0]
        else:
            return e


def canon(e):
    """Canonical rendering in which every way of taking the success payload of X is written `X!` (see unwrap_success);
    otherwise identical to str(e). Use it to match facts/arguments independently of `?` vs let-else vs match."""
    x = unwrap_success(e)
    if x is not None:
        return canon(x) + "!"
    k, a = e.k, e.a
    if k == "field":
        return "%s.%s" % (canon(a[0]), a[1])
    if k == "variant":
        return "%s@%s" % (canon(a[0]), a[1])
    if k == "index":
        return "%s[%s]" % (canon(a[0]), canon(a[1]) if isinstance(a[1], E) else a[1])
    if k == "call":
        return "%s(%s)" % (a[0], ", ".join(canon(x) for x in a[1]))
    if k == "bin":
        return "(%s %s %s)" % (canon(a[1]), a[0], canon(a[2]))
    if k == "un":
        return "%s(%s)" % (a[0], canon(a[1]))
    if k == "cast":
        return "(%s as %s)" % (canon(a[0]), a[1])
    if k == "agg":
        return "%s{%s}" % (a[0], ", ".join("%s: %s" % (n, canon(v)) for n, v in a[1]))
    if k == "discr":
        return "discr(%s)" % canon(a[0])
    if k == "len":
        return "len(%s)" % canon(a[0])
    if k == "phi":
        return "phi(%s)" % " | ".join(sorted(set(canon(x) for x in a[0])))
    if k == "trybranch":
        return "trybranch<%s>" % canon(a[0])
    return str(e)


def canon_facts(fn, bb):
    """cmp_facts with canonical operand renderings: [(op, a_str, b_str|None)]"""
    return [(o, canon(a), canon(b) if b is not None else None) for (o, a, b) in A.cmp_facts(fn, bb)]


def has_canon_bool(facts, truth, rx):
    return any(b is None and o == ("true" if truth else "false") and re.search(rx, a) for (o, a, b) in facts)


def ok_payload_operands(fn):
    """[(bb, operand)] for every `return Ok(x)` construction (operand of the Ok aggregate assigned to the return place)"""
    out = []
    for bb, si, s in fn.statements():
        if s[0] == "=" and s[1] == [0] and s[2][0] == "agg" and s[2][1] == "adt" and s[2][3] and s[2][3][0] == "Ok" and s[2][4]:
            out.append((bb, s[2][4][0]))
    return out


_CHK = re.compile(r"^(?:u8|u16|u32|u64|u128|usize|i8|i16|i32|i64|i128|isize)::(checked|saturating|wrapping)_(add|sub|mul|div)$")


def checked_op(e):
    """E -> (mode, op, a, b) where mode in checked|asserted|saturating|wrapping|raw and op in add|sub|mul|div|rem; else None."""
    e = peel(e)
    if e.k == "call":
        m = _CHK.match(e.a[0])
        if m and len(e.a[1]) == 2:
            return (m.group(1), m.group(2), e.a[1][0], e.a[1][1])
        m2 = re.match(r"^(?:Checked(Add|Sub|Mul|Div))::checked_(add|sub|mul|div)$", e.a[0])
        if m2 and len(e.a[1]) == 2:
            return ("checked", m2.group(2), e.a[1][0], e.a[1][1])
    if e.k == "bin":
        op = e.a[0]
        if op.endswith("WithOverflow"):
            return ("asserted", op[:-12].lower(), e.a[1], e.a[2])
        if op in ("Add", "Sub", "Mul", "Div", "Rem"):
            return ("raw", op.lower(), e.a[1], e.a[2])
    return None


def leaves(e):
    """Set of rendered atoms (params, field paths, consts, upvars, zero-arg calls, unresolved locals) of an expression."""
    out = set()

    def rec(x):
        if x.k in ("param", "const", "upvar", "local"):
            out.add(str(x))
            return
        if x.k == "field":
            # a field path rooted at a param/upvar is one atom
            y = x
            while y.k in ("field", "variant", "index") and not (y.k == "index" and isinstance(y.a[1], E) and False):
                y = y.a[0]
            if y.k in ("param", "upvar"):
                out.add(str(x))
                if x.k == "index" and isinstance(x.a[1], E):
                    rec(x.a[1])
                return
        ch = x.children()
        if not ch:
            out.add(str(x))
        for c in ch:
            rec(c)

    rec(e)
    return out


# ------------------------------------------------------------------ types of places


def _strip_ref(ty):
    ty = ty.strip()
    while True:
        m = re.match(r"^&(?:'[a-z_0-9]+ )?(?:mut )?(.*)$", ty)
        if m:
            ty = m.group(1).strip()
            continue
        return ty


def place_chain(prog, fn, place):
    """[(adt_id|None, field)] for the field projections of a MIR place (list: local, proj...)."""
    ty = _strip_ref(fn.locals[place[0]][0])
    out = []
    for p in place[1:]:
        if p == "*":
            if ty is not None:
                ty = _strip_ref(ty)
            continue
        if p.startswith("."):
            nm = p[1:]
            adt = prog.adts.get(re.sub(r"<.*$", "", ty)) if ty else None
            if adt is None or nm.startswith("^"):
                out.append((None, nm))
                ty = None
                continue
            out.append((adt.id, nm))
            fty = None
            for f in adt.fields:
                if f["name"] == nm:
                    fty = f["ty"]
            ty = _strip_ref(fty) if fty else None
        elif p.startswith("["):
            if ty:
                m = re.match(r"^\[(.*); [^;]*\]$", ty) or re.match(r"^\[(.*)\]$", ty)
                ty = m.group(1) if m else None
        elif p.startswith("@"):
            ty = None
    return out


def field_writers(prog, crates, adt_re, field):
    """All stores / `&mut` borrows whose place projects through field `field` of an ADT matching adt_re.
    Returns list of dict(fn, bb, kind, resolved(bool), path, rv)."""
    out = []
    rx = re.compile(adt_re if adt_re.endswith("$") else adt_re + "$")
    tag = "." + field
    for f in prog.fns.values():
        if f.crate not in crates:
            continue
        sites = []
        for bb, si, s in f.statements():
            if s[0] not in ("=", "setdiscr"):
                continue
            if len(s[1]) > 1 and tag in s[1][1:]:
                sites.append((bb, "assign", s[1], f._rvalue_expr(s[2], 0, ()) if s[0] == "=" else None))
            if s[0] == "=" and s[2][0] in ("ref", "rawptr") and s[2][1] in ("mut", "Mut") and tag in s[2][2][1:]:
                sites.append((bb, "mutborrow", s[2][2], None))
        for cs in f.calls:
            if len(cs.dest) > 1 and tag in cs.dest[1:]:
                sites.append((cs.bb, "assign", cs.dest, f._call_expr(cs, 0, ())))
        for bb, kind, pl, rv in sites:
            chain = place_chain(prog, f, pl)
            hit = [c for c in chain if c[1] == field]
            resolved = [c for c in hit if c[0] is not None]
            if resolved and not any(rx.search(c[0]) for c in resolved):
                continue  # a field of the same name of another type
            out.append({"fn": f, "bb": bb, "kind": kind, "resolved": bool(resolved), "path": A._place_path(f, pl), "rv": rv})
    return out


def writes_to(fn, path_re):
    """Direct stores of `fn` to places whose rendered path matches path_re: [(bb, path, E)]"""
    return [(w["bb"], w["path"], w["rv"]) for w in A.field_writes(fn, path_re) if w["kind"] == "assign"]


# ------------------------------------------------------------------ CFG helpers


def ret_blocks(fn):
    return [i for i, b in enumerate(fn.blocks) if b["t"][0] == "ret" and not b.get("cleanup")]


def must_pass(fn, src, through):
    """Every normal path from block src to a `return` passes through one of the blocks `through` (src itself counts)."""
    through = set(through)
    if src in through:
        return True
    r = fn.reachable_from(src, avoid_blocks=tuple(through))
    return not any(b in r for b in ret_blocks(fn))


def must_pass_to_ok(fn, src, through):
    """Every normal path from block src to an Ok-constructing exit passes through one of the blocks `through`
    (paths that end in an Err exit abort the transaction and are not constrained)."""
    through = set(through)
    if src in through:
        return True
    r = fn.reachable_from(src, avoid_blocks=tuple(through))
    return not any(b in r for b in fn.ok_exit_blocks())


def try_ok_block(fn, cs):
    """For a call whose result is `?`-propagated: (switch_bb, continue_bb, break_bb) or None."""
    from . import anchor
    try:
        return anchor.try_switch_of(fn, cs)
    except Exception:
        return None


def call_of(e):
    """The CallSite of a call expression (possibly under `?`/wrappers)."""
    e = peel(e) if e.k in ("try", "trybranch") else e
    while e.k in ("try", "trybranch"):
        e = e.a[0]
    if e.k == "call" and len(e.a) > 2:
        return e.a[2]
    return None


def err_exit_source(fn, bb, e):
    """CallSite whose Err an err-exit propagates (`?`), else None (the exit constructs its own error)."""
    if e.k == "call" and e.a[0] == "FromResidual::from_residual" and e.a[1]:
        x = e.a[1][0]
        while x.k in ("variant", "field"):
            x = x.a[0]
        if x.k == "trybranch":
            y = x.a[0]
            while y.k == "call" and y.a[0] in WRAPPERS and y.a[1]:
                y = y.a[1][0]
            if y.k == "call" and len(y.a) > 2:
                return y.a[2]
    return None


def atomic_update(ctx, key, fn, fallible_mut_calls=(), accessors=()):
    """A3(b): after the first store through a `&mut` parameter no Err exit is reachable. A call that receives a `&mut`
    reborrow of (part of) a `&mut` parameter counts as a store; it may fail itself (`?` on that very call) only if its
    callee is listed in fallible_mut_calls (such a callee must be atomic itself — shown by its own instance).
    `accessors`: callees that merely return a `&mut` into the state (lookups) — not writes; stores through any local
    `&mut` reference (e.g. the one such an accessor returned) are counted as state writes."""
    muts = [fn.locals[i + 1][1] for i in range(fn.arg_count) if fn.locals[i + 1][0].startswith("&mut")]
    if not muts:
        ctx.ob(key, False, "%s has no &mut parameter" % fn.short, where=fn.where())
        return False
    sites = []
    for bb, si, s in fn.statements():
        if s[0] not in ("=", "setdiscr"):
            continue
        pl = s[1]
        if len(pl) > 1 and 0 < pl[0] <= fn.arg_count and fn.locals[pl[0]][1] in muts:
            sites.append((bb, "store " + A._place_path(fn, pl), None))
        elif len(pl) > 1 and pl[1] == "*" and pl[0] > fn.arg_count and fn.locals[pl[0]][0].startswith("&mut"):
            sites.append((bb, "store " + A._place_path(fn, pl), None))
        if s[0] == "=" and s[2][0] in ("ref", "rawptr") and s[2][1] in ("mut", "Mut"):
            src = s[2][2]
            if 0 < src[0] <= fn.arg_count and fn.locals[src[0]][1] in muts:
                users = [c for c in fn.calls if any(isinstance(a, list) and a and a[0] == pl[0] for a in c.args)]
                if users and all(any(re.search(x, c.name or "") for x in accessors) for c in users):
                    continue
                if users:
                    for c in users:
                        sites.append((c.bb, "call " + c.rshort + "(&mut " + A._place_path(fn, src) + ")", c))
                else:
                    sites.append((bb, "&mut " + A._place_path(fn, src), None))
    for cs in fn.calls:
        d = cs.dest
        if len(d) > 1 and 0 < d[0] <= fn.arg_count and fn.locals[d[0]][1] in muts:
            sites.append((cs.target if cs.target is not None else cs.bb, "store " + A._place_path(fn, d), None))
    errs = {bb: e for bb, k, e in fn.exits() if k == "err"}
    bad = []
    for bb, what, cs in sites:
        r = fn.reachable_from(bb)
        for eb, ee in errs.items():
            if eb not in r or eb == bb:
                continue
            src = err_exit_source(fn, eb, ee)
            if cs is not None and src is not None and src.bb == cs.bb \
                    and any(re.search(x, cs.name or "") for x in fallible_mut_calls):
                continue
            bad.append("%s (bb%d) can be followed by the Err exit bb%d%s" % (
                what, bb, eb, " propagating " + src.rshort if src is not None else ""))
    ctx.ob(key, not bad and len(sites) > 0,
           "%s: %d state writes, none can be followed by an Err exit%s" % (
               fn.short, len(sites), "; VIOLATED: " + "; ".join(bad[:4]) if bad else ""),
           where=fn.where(), detail={"writes": sorted(set(s[1] for s in sites))[:14]})
    return not bad and len(sites) > 0


def ok_facts(fn):
    """Facts common to all Ok exits: (facts list of first ok exit restricted to those present at every ok exit, n_ok_exits)."""
    oks = [bb for bb, k, e in fn.exits() if k == "ok"]
    if not oks:
        return [], 0
    per = []
    for bb in oks:
        per.append([(o, str(a), str(b) if b is not None else None, a, b) for (o, a, b) in A.cmp_facts(fn, bb)])
    first = per[0]
    common = []
    for fct in first:
        if all(any(fct[:3] == g[:3] for g in other) for other in per[1:]):
            common.append((fct[0], fct[3], fct[4]))
    return common, len(oks)


def facts_at(fn, bb):
    return A.cmp_facts(fn, bb)


def fact_strs(facts):
    return ["%s %s %s" % (a, o, b) if b is not None else "%s is %s" % (a, o) for (o, a, b) in facts]


def phi_defs(fn, op, _depth=0):
    """Definitions of the value of a place operand, following single-definition copies:
    [(bb, E)] — one entry per assignment of the first local (on the copy chain) that has several definitions
    (or the single non-copy definition). Lets a rule ask under which branch facts each alternative is chosen."""
    if isinstance(op, dict) or len(op) != 1 or _depth > 12:
        return [(None, fn.expr(op))]
    n = op[0]
    if 0 < n <= fn.arg_count:
        return [(None, fn.local_expr(n))]
    ds = [d for d in fn.defs().get(n, []) if d[2] == ()]
    if len(ds) == 1:
        bb, si, _p, rv = ds[0]
        if not isinstance(rv, CallSiteT) and rv[0] == "use" and isinstance(rv[1], list):
            return phi_defs(fn, rv[1], _depth + 1)
        return [(bb, fn._rvalue_expr(rv, 0, ()))]
    return [(bb, fn._rvalue_expr(rv, 0, ())) for (bb, si, _p, rv) in ds]


def guard_truth(fn, bb, cond_re):
    """Truth value (True/False/None) of the dominating boolean guard whose condition matches cond_re at block bb."""
    for c, t in fn.bool_guards(bb):
        if re.search(cond_re, str(c)):
            return t
    return None


def is_min_of(fn, op, a_re, b_re):
    """Semantic `value = min(a, b)` (value <= a and value <= b, and value is one of them), independent of syntax:
       * a call Ord::min / cmp::min / <int>::min over operands matching a_re and b_re (either order), or
       * a comparison + select: every definition of the value (following copies) is an operand matching a_re or b_re and
         the block of that definition is dominated by the branch fact `chosen <= other` (or `<`).
    a_re / b_re are matched against CANONICAL renderings (`X!` for any success-unwrapping of X, see canon()).
    Returns (ok, description)."""
    e = fn.expr(op)
    if e.k == "call" and re.search(r"(^|::)min$", e.a[0]) and len(e.a[1]) == 2:
        s = [canon(x) for x in e.a[1]]
        ok = (re.search(a_re, s[0]) and re.search(b_re, s[1])) or (re.search(a_re, s[1]) and re.search(b_re, s[0]))
        return bool(ok), "%s(%s, %s)" % (e.a[0], s[0][:60], s[1][:60])
    defs = phi_defs(fn, op) if isinstance(op, list) else [(None, e)]
    if len(defs) < 2:
        return False, "neither a min() call nor a guarded select: %s" % canon(e)[:120]
    seen = set()
    for bb, d in defs:
        s = canon(d)
        if bb is None:
            return False, "unguarded alternative %s" % s[:80]
        facts = canon_facts(fn, bb)
        if re.search(a_re, s) and not re.search(b_re, s):
            if not A.has_fact(facts, "<=", a_re, b_re):
                return False, "alternative `%s` is chosen without the fact a <= b" % s[:60]
            seen.add("a")
        elif re.search(b_re, s) and not re.search(a_re, s):
            if not A.has_fact(facts, "<=", b_re, a_re):
                return False, "alternative `%s` is chosen without the fact b <= a" % s[:60]
            seen.add("b")
        else:
            return False, "alternative `%s` is neither operand" % s[:80]
    return seen == {"a", "b"}, "select: a when a <= b, b when b <= a (%d definitions)" % len(defs)


def agg_fields(e, name_re):
    """First aggregate sub-expression whose type name matches name_re -> {field: E} (else None)."""
    for x in e.walk():
        if x.k == "agg" and re.search(name_re, x.a[0]):
            return dict(x.a[1])
    return None


def account_roots(e, base=r"ctx\.accounts"):
    """Names of the accounts-struct fields an expression is derived from ({'escrow'} for any unwrapping of ctx.accounts.escrow)."""
    return set(re.findall(base + r"\.([a-z_0-9]+)", str(e)))


def closure_view(prog, parent, cfn):
    """Exit expressions of closure `cfn` rendered independently of local names: closure parameters become $1, $2, ..
    and captured variables `^name` are replaced by the parent's expression for the captured value in <..>.
    Returns list of strings (one per exit)."""
    env = {}
    for bb, si, s in parent.statements():
        rv = s[2] if s[0] == "=" else None
        if rv and rv[0] == "agg" and rv[1] == "closure" and rv[2] == cfn.id:
            e = parent._rvalue_expr(rv, 0, ())
            names = e.a[2] if len(e.a) > 2 else ()
            for nm, v in zip(names, e.a[1]):
                env[str(nm).lstrip("^")] = str(v)
    params = {}
    for i in range(1, cfn.arg_count):
        nm = cfn.locals[i + 1][1]
        if nm:
            params[nm] = "$%d" % i
    out = []
    for _, _, e in cfn.exits():
        out.append(subst_names(str(e), env, params))
    return out


def subst_names(s, env, params):
    for k in sorted(env, key=len, reverse=True):
        s = s.replace("^" + k, "<%s>" % env[k])
    for nm, rep in params.items():
        s = re.sub(r"(?<![\w^.$])%s(?![\w])" % re.escape(nm), lambda m, rep=rep: rep, s)
    return s


def closure_writes(prog, parent, cfn, path_re=r"."):
    """Stores of a closure with parameter names normalised: [(path, value)]"""
    params = {cfn.locals[i + 1][1]: "$%d" % i for i in range(1, cfn.arg_count) if cfn.locals[i + 1][1]}
    return [(subst_names(w["path"], {}, params), subst_names(str(w["rv"]), {}, params))
            for w in A.field_writes(cfn, path_re) if w["kind"] == "assign"]


def success_edge(fn, cs, _depth=0):
    """(switch_bb, success_bb, failure_bb) for a fallible call whose result is tested — by `?` (possibly behind
    map_err/ok_or_else wrappers) or by a direct `match` / `let .. else` / `if let` on the returned Result/Option.
    success_bb is the block entered only when the call succeeded (Ok / Some). None if the result is not branched on."""
    from . import anchor
    ts = anchor.try_switch_of(fn, cs)
    if ts is not None:
        return ts
    if _depth > 3 or not cs.dest:
        return None
    d0 = cs.dest[0]
    # error-mapping wrappers consuming the result
    for w in fn.calls:
        if w is not cs and w.short in WRAPPERS and w.args and isinstance(w.args[0], list) and w.args[0] and w.args[0][0] == d0:
            r = success_edge(fn, w, _depth + 1)
            if r is not None:
                return r
    ty = fn.locals[d0][0]
    if ty.startswith("std::result::Result"):
        ok_label = 0
    elif ty.startswith("std::option::Option"):
        ok_label = 1
    else:
        return None
    # locals holding discr(dest) (also through one copy of dest)
    aliases = {d0}
    for bb, si, s in fn.statements():
        if s[0] == "=" and len(s[1]) == 1 and s[2][0] == "use" and isinstance(s[2][1], list) and len(s[2][1]) == 1 and s[2][1][0] in aliases:
            aliases.add(s[1][0])
    dl = set()
    for bb, si, s in fn.statements():
        if s[0] == "=" and len(s[1]) == 1 and s[2][0] == "discr" and isinstance(s[2][1], list) and s[2][1][0] in aliases and len([p for p in s[2][1][1:] if p != "*"]) == 0:
            dl.add(s[1][0])
    for i, b in enumerate(fn.blocks):
        t = b["t"]
        if t[0] == "switch" and isinstance(t[1], list) and len(t[1]) == 1 and t[1][0] in dl and not b.get("cleanup"):
            okb = errb = None
            vals = {int(v): tgt for v, tgt in t[2]}
            other = t[3]
            okb = vals.get(ok_label, other if len(vals) == 1 else None)
            errb = vals.get(1 - ok_label, other if len(vals) == 1 else None)
            if okb is not None and okb != errb:
                return (i, okb, errb)
    return None


def canon_path(path):
    """canonical form of a rendered place path: success-unwrapping suffixes `?`, `@Some.0`, `@Ok.0` -> `!`"""
    return re.sub(r"\?|@(Some|Ok|Continue)\.0", "!", path)
