"""Helpers of rule group C (C15 C16 C17 C40 C21 C22 C45): place scanning, per-path tables, small evaluators.

Nothing here looks at source text or line numbers; everything is derived from MIR places, resolved callees,
branch conditions and value provenance (`Fn.expr` / `Fn.expr_on_path`).
"""
import re

from . import analyses as A
from .model import E, short_path, strip_generics

# ----------------------------------------------------------------------------- places


def _is_place(x):
    return (isinstance(x, list) and x and isinstance(x[0], int) and not isinstance(x[0], bool)
            and all(isinstance(y, str) for y in x[1:]))


def iter_places(x):
    """Every place list `[local, proj...]` nested anywhere in a statement / operand structure."""
    if _is_place(x):
        yield x
        return
    if isinstance(x, list):
        for y in x:
            for p in iter_places(y):
                yield p
    elif isinstance(x, dict):
        for y in x.values():
            for p in iter_places(y):
                yield p


def place_uses(fn):
    """All places mentioned by a function: (bb, place, role, mac) with role in def|use|mutref|term|callarg|calldest."""
    for bb, si, s in fn.statements():
        mac = s[4] if len(s) > 4 and isinstance(s[4], list) else []
        if s[0] in ("=", "setdiscr"):
            yield bb, s[1], "def", mac
            if s[0] == "=":
                rv = s[2]
                if rv[0] in ("ref", "rawptr") and str(rv[1]).lower() in ("mut", "two_phase_mut", "twophasemut") and _is_place(rv[2]):
                    yield bb, rv[2], "mutref", mac
                    continue
                for p in iter_places(rv):
                    yield bb, p, "use", mac
    for bb, b in enumerate(fn.blocks):
        if b.get("cleanup"):
            continue
        t = b["t"]
        mac = b.get("mac", []) or []
        if t[0] == "switch":
            for p in iter_places(t[1]):
                yield bb, p, "term", mac
        elif t[0] == "call":
            for p in iter_places(t[1]["args"]):
                yield bb, p, "callarg", mac
            yield bb, t[1]["dest"], "calldest", mac
        elif t[0] == "assert":
            for p in iter_places(t[1]):
                yield bb, p, "term", mac


def place_path(fn, pl):
    return A._place_path(fn, pl)


def place_fields(pl):
    return [p[1:] for p in pl[1:] if p.startswith(".")]


def in_macro(mac, names):
    return any(m in names or m.split("::")[-1] in names for m in (mac or []))


DEBUG_MACROS = {"debug_assert", "debug_assert_eq", "debug_assert_ne"}


def _strip_ref(ty):
    ty = ty.strip()
    while True:
        m = re.match(r"^&(?:'[a-z_]+ )?(?:mut )?(.*)$", ty)
        if m:
            ty = m.group(1).strip()
            continue
        if ty.startswith("*const ") or ty.startswith("*mut "):
            ty = ty.split(" ", 1)[1]
            continue
        return ty


def place_owner_types(prog, fn, pl):
    """For each field projection of `pl`: (owning ADT id or None, field name). Type walk over ADT field types."""
    out = []
    ty = _strip_ref(fn.locals[pl[0]][0])
    for p in pl[1:]:
        if p == "*":
            ty = _strip_ref(ty) if ty else ty
            continue
        if p.startswith("."):
            nm = p[1:]
            adt = prog.adts.get(strip_generics(ty)) if ty else None
            out.append((adt.id if adt is not None else None, nm))
            nty = None
            if adt is not None:
                for v in adt.variants:
                    for f in v["fields"]:
                        if f["name"] == nm:
                            nty = f["ty"]
            ty = _strip_ref(nty) if nty else None
        else:
            ty = None
    return out


# ----------------------------------------------------------------------------- paths


def _const_consistent(path):
    """A branch whose (path-resolved) condition is a boolean constant can only take the matching edge
    (`let b = x || y; if b {..}` lowers to such branches)."""
    for cond, lab, ty in path["conds"]:
        if ty != "bool":
            continue
        cb = const_bool(cond)
        if cb is None:
            continue
        truth = isinstance(lab, tuple) or lab != 0
        if truth != cb:
            return False
    return True


def paths(fn, max_paths=4000):
    """Feasible acyclic entry->return paths (diverging = panicking paths excluded)."""
    return [p for p in A.decision_table(fn, max_paths=max_paths) if A.feasible(p) and not p["diverges"] and _const_consistent(p)]


def truth_on_path(path, cond_re):
    """Truth value of the (bool) branch condition matching cond_re on this path: True/False/None (not branched)."""
    res = None
    for cond, lab, ty in path["conds"]:
        if re.search(cond_re, str(cond)):
            t = None
            if isinstance(lab, tuple):
                t = True if ty == "bool" else None
                if ty != "bool":
                    # otherwise-edge of an integer switch that excludes 0 => "non-zero"
                    t = True if set(lab[1]) == {0} else None
            else:
                t = (lab != 0)
            if t is None:
                return None
            if res is not None and res != t:
                return None
            res = t
    return res


def discr_on_path(path, scrut_re):
    """Label taken by the switch on discr(<scrut_re>) on this path: int, ('otherwise', vals) or None."""
    for cond, lab, ty in path["conds"]:
        if cond.k == "discr" and re.search(scrut_re, str(cond.a[0])):
            return lab
    return None


def unwrap_ok(e):
    """`Result::Ok{0: x}` / `Option::Some{0: x}` -> x, else None."""
    if e is not None and e.k == "agg" and re.search(r"(^|::)(Ok|Some)$", e.a[0]) and len(e.a[1]) == 1:
        return e.a[1][0][1]
    return None


def const_bool(e):
    """Evaluate a constant boolean expression (`true`, `false`, `Not(..)`): True/False/None."""
    if e is None:
        return None
    if e.k == "const":
        if e.a[0] in ("true", "1"):
            return True
        if e.a[0] in ("false", "0"):
            return False
        return None
    if e.k == "un" and e.a[0] == "Not":
        v = const_bool(e.a[1])
        return None if v is None else (not v)
    return None


def const_int(e):
    if e is not None and e.k == "const" and re.match(r"^-?\d+$", e.a[0] or ""):
        return int(e.a[0])
    return None


def is_bin(e, op, a_re=None, b_re=None):
    return (e is not None and e.k == "bin" and e.a[0] in (op if isinstance(op, (tuple, list, set)) else (op,))
            and (a_re is None or re.search(a_re, str(e.a[1]))) and (b_re is None or re.search(b_re, str(e.a[2]))))


def half_kind(e, x):
    """Classify e as a half of the value rendered `x`: 'ceil' | 'floor' | 'whole' | None (unclassified idiom)."""
    s = str(e)
    xs = re.escape(x)
    if s == x:
        return "whole"
    floor_forms = [r"^\(%s Div 2\)$" % xs, r"^\(%s Shr 1\)$" % xs, r"^u128::(checked_div|wrapping_div|div_floor)\(%s, 2\)\??$" % xs]
    ceil_forms = [r"^u128::div_ceil\(%s, 2\)$" % xs,
                  r"^\(%s Sub(WithOverflow)? \(%s Div 2\)\)(\.0)?$" % (xs, xs),
                  r"^\(\(%s Div 2\) Add(WithOverflow)? \(%s Rem 2\)\)(\.0)?$" % (xs, xs),
                  r"^\(\(%s Rem 2\) Add(WithOverflow)? \(%s Div 2\)\)(\.0)?$" % (xs, xs),
                  r"^\(\(%s Shr 1\) Add(WithOverflow)? \(%s BitAnd 1\)\)(\.0)?$" % (xs, xs)]
    if any(re.search(r, s) for r in floor_forms):
        return "floor"
    if any(re.search(r, s) for r in ceil_forms):
        return "ceil"
    return None


def parity_of(e, x):
    """e == x & 1 (or x % 2)."""
    s = str(e)
    xs = re.escape(x)
    return bool(re.search(r"^\(%s (BitAnd 1|Rem 2)\)$" % xs, s) or re.search(r"^\(1 BitAnd %s\)$" % xs, s))


# ----------------------------------------------------------------------------- stores on a path


def stores_on_path(fn, blocks, root_re=r"^self\b"):
    """Stores executed on the block path whose destination (path-resolved) is rooted at root_re.
    Returns list of dict(bb, dest=str, value=E). Destination through a `&mut` local is resolved to the borrowed place."""
    out = []
    pos = {b: i for i, b in enumerate(blocks)}
    for i, b in enumerate(blocks):
        for si, s in enumerate(fn.blocks[b]["s"]):
            if s[0] != "=":
                continue
            pl = s[1]
            if len(pl) < 2:
                continue
            base = fn.expr_on_path([pl[0]], blocks, upto=i)
            d = str(base)
            for p in pl[1:]:
                if p != "*":
                    d += p
            if not re.search(root_re, d):
                continue
            rv = s[2]
            if rv[0] == "use":
                val = value_at(fn, rv[1], blocks, i)
            else:
                val = _rv_on_path(fn, rv, blocks, i)
            out.append({"bb": b, "dest": d, "value": val})
        cs = fn.call_in_block(b)
        if cs is not None and len(cs.dest) > 1:
            base = fn.expr_on_path([cs.dest[0]], blocks, upto=i)
            d = str(base) + "".join(p for p in cs.dest[1:] if p != "*")
            if re.search(root_re, d):
                out.append({"bb": b, "dest": d, "value": E("call", cs.short, tuple(fn.expr_on_path(a, blocks, upto=i) for a in cs.args), cs)})
    return out


def value_at(fn, op, blocks, i, _d=0):
    """Operand value just before position i of the path; a read of `local.f` sees the last store to exactly
    `local.f` made earlier on the path (after the last whole definition of the local)."""
    if isinstance(op, dict) or len(op) < 2 or not op[1].startswith(".") or (0 < op[0] <= fn.arg_count) or _d > 6:
        return fn.expr_on_path(op, blocks, upto=i)
    pos = {}
    for j, b in enumerate(blocks[:i + 1]):
        pos[b] = j
    n = op[0]
    whole = [(pos[bb], -1 if si == "call" else si) for (bb, si, proj, rv) in fn.defs().get(n, [])
             if proj == () and bb in pos and (pos[bb] < i or si == "call" and pos[bb] < i)]
    last_whole = max(whole) if whole else (-1, -1)
    cands = []
    for (bb, si, proj, rv) in fn.defs().get(n, []):
        if proj == (op[1],) and bb in pos and pos[bb] < i and si != "call":
            key = (pos[bb], si)
            if key > last_whole:
                cands.append((key, rv))
    if not cands:
        return fn.expr_on_path(op, blocks, upto=i)
    cands.sort(key=lambda c: c[0])
    key, rv = cands[-1]
    if rv[0] == "use":
        e = value_at(fn, rv[1], blocks, key[0], _d + 1)
    else:
        e = _rv_on_path(fn, rv, blocks, key[0], _d + 1)
    for p in op[2:]:
        e = fn._project(e, p)
    return e


def _rv_on_path(fn, rv, blocks, i, _d=0):
    k = rv[0]
    sub = lambda o: value_at(fn, o, blocks, i, _d)
    if k in ("ref", "rawptr"):
        return sub(rv[2])
    if k == "bin":
        return E("bin", rv[1], sub(rv[2]), sub(rv[3]))
    if k == "un":
        return E("un", rv[1], sub(rv[2]))
    if k == "cast":
        inner = sub(rv[2])
        if rv[1].startswith("PointerCoercion") or rv[1] in ("PtrToPtr", "Transmute"):
            return inner
        return E("cast", inner, short_path(rv[3], 1))
    return fn._rvalue_expr(rv, 0, ())


def returned_local(fn, blocks):
    """The local aggregate whose value is returned inside Ok(..)/Some(..) (or directly) on the path: follows plain moves."""
    pos = {b: i for i, b in enumerate(blocks)}
    cur = None
    # last whole def of _0 on the path
    best = None
    for (bb, si, proj, rv) in fn.defs().get(0, []):
        if proj == () and bb in pos and si != "call":
            if best is None or (pos[bb], si) > best[0]:
                best = ((pos[bb], si), rv)
    if best is None:
        return None
    rv = best[1]
    if rv[0] == "agg" and len(rv[4]) == 1 and isinstance(rv[4][0], list):
        cur = rv[4][0]
    elif rv[0] == "use" and isinstance(rv[1], list):
        cur = rv[1]
    else:
        return None
    for _ in range(8):
        if len(cur) != 1:
            return None
        n = cur[0]
        whole = [(pos[bb], si, rv) for (bb, si, proj, rv) in fn.defs().get(n, []) if proj == () and bb in pos and si != "call"]
        partial = [d for d in fn.defs().get(n, []) if d[2] != () and d[0] in pos]
        if partial or not whole:
            return n
        whole.sort(key=lambda c: (c[0], c[1]))
        rv = whole[-1][2]
        if rv[0] == "use" and isinstance(rv[1], list) and len(rv[1]) == 1 and not (0 < rv[1][0] <= fn.arg_count):
            cur = rv[1]
            continue
        return n
    return None


def field_on_path(fn, local, field, blocks):
    """Value of `local.field` at the end of the path: last partial def of exactly that field after the last whole def,
    else the projection of the whole value."""
    pos = {b: i for i, b in enumerate(blocks)}
    whole = [(pos[bb], -1 if si == "call" else si) for (bb, si, proj, rv) in fn.defs().get(local, []) if proj == () and bb in pos]
    last_whole = max(whole) if whole else (-1, -1)
    cands = []
    for (bb, si, proj, rv) in fn.defs().get(local, []):
        if proj == ("." + field,) and bb in pos:
            key = (pos[bb], 10 ** 6 if si == "call" else si)
            if key > last_whole:
                cands.append((key, rv))
    if cands:
        cands.sort(key=lambda c: c[0])
        key, rv = cands[-1]
        if hasattr(rv, "short"):
            return E("call", rv.short, tuple(fn.expr_on_path(a, blocks, upto=key[0]) for a in rv.args), rv)
        if rv[0] == "use":
            return value_at(fn, rv[1], blocks, key[0])
        return _rv_on_path(fn, rv, blocks, key[0])
    return fn._project(fn.expr_on_path([local], blocks), "." + field)


def guarded_by(fn, bb, cond_re, truth):
    """Block bb is reached only through the `truth` edge of a bool branch whose condition matches cond_re."""
    return any(t == truth and re.search(cond_re, str(c)) for c, t in fn.bool_guards(bb))


def impl_fns(prog, self_adt_id, trait_re=None, crate=None):
    out = []
    for f in prog.fns.values():
        if "{closure" in f.id or not f.impl:
            continue
        if f.impl.get("self_adt") != self_adt_id:
            continue
        if crate and f.crate != crate:
            continue
        tr = f.impl.get("trait")
        if trait_re is None or (tr and re.search(trait_re, tr)) or (trait_re == "" and not tr):
            out.append(f)
    return out


def failure_branch_taken(path, prim_re):
    """Did the path take the failure branch of a checked primitive matching prim_re?
    Recognised: `prim(..).ok_or(e)?` / `prim(..)?` (Break edge of the Try switch) and `let Some(x) = prim(..) else {..}` /
    `match prim(..)` (None edge of the discriminant switch). Returns True / False / None (primitive not branched on)."""
    res = None
    for cond, lab, ty in path["conds"]:
        if cond.k != "discr" or not re.search(prim_re, str(cond.a[0])):
            continue
        inner = cond.a[0]
        if inner.k == "trybranch":
            fail = (lab == 1)
        else:
            # Option discriminant: 0 = None, 1 = Some
            fail = (lab == 0) if isinstance(lab, int) else None
            if isinstance(lab, tuple):
                fail = 1 in lab[1]  # otherwise-edge of a switch that lists Some => None
        if fail is None:
            continue
        res = bool(fail) or bool(res)
    return res


def delta_semantics(fn, pure_re, prim_re=r"u128::checked_add_signed\("):
    """Semantic signature of an `apply_delta_*` method, independent of how the Option is unwrapped:
    set of (is_pure on the path, 'ok', written field, primitive applied to (field, delta)) and (is_pure, 'err-on-failure')."""
    from .model import classify_result
    sig = set()
    for p in paths(fn):
        pure = truth_on_path(p, pure_re)
        kind = classify_result(p["ret"]) if p["ret"] is not None else "unknown"
        failed = failure_branch_taken(p, prim_re)
        if kind == "err":
            sig.add((pure, "err-on-failure" if failed else "err-other"))
            continue
        if failed:
            sig.add((pure, "ok-despite-failure"))
        for s in stores_on_path(fn, p["blocks"]):
            prims = sorted("%s(%s)" % (c.a[0], ", ".join(str(x) for x in c.a[1])) for c in s["value"].calls(r"(checked|wrapping|saturating|overflowing)_"))
            sig.add((pure, "ok", s["dest"], tuple(prims)))
    return sig
