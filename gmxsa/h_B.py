"""Helpers of group B (model actions: C04 C07 C08 C09 C12 C13 C14).

 success_paths   — acyclic entry->Ok-exit paths only (the error/cleanup tails are pruned, so large
                   `?`-heavy functions stay enumerable), with path-sensitive branch conditions
 Lin / lin_of    — A11(b): integer linear forms over opaque atoms for values built from
                   checked_add / checked_sub / checked_neg / to_signed / to_opposite_signed / `?` / ok_or
 side deltas     — Delta::new_one_side / new_both_sides / new_with_long / new_with_short -> {side: E}
"""
import re
import sys

from . import analyses as A
from .model import E, classify_result, short_path


# ------------------------------------------------------------------ paths


def _const_switch_edge(fn, bb):
    """If block bb ends in a switch on a compile-time constant (cfg!(debug_assertions)), return the taken target."""
    t = fn.blocks[bb]["t"]
    if t[0] != "switch":
        return None
    e = fn.expr(t[1])
    if e.k == "const" and e.a[0] in ("true", "false"):
        v = 1 if e.a[0] == "true" else 0
        for val, tgt in t[2]:
            if int(val) == v:
                return tgt
        return t[3]
    return None


def _drop_flags(fn):
    out = set()
    for n, (ty, nm) in enumerate(fn.locals):
        if ty == "bool" and nm is None and n > fn.arg_count and A._is_drop_flag(fn, [n]):
            out.add(n)
    return out


def ok_blocks(fn, kinds=("ok",)):
    return sorted(bb for bb, k, _ in fn.exits() if k in kinds)


def success_paths(fn, targets=None, max_paths=3000, kinds=("ok",), feasible_only=True, track_places=False):
    """All acyclic paths entry -> one of `targets` (default: the blocks constructing the Ok/Some return value)
    on the normal CFG, visiting only blocks from which a target is reachable.
    Returns list of dict(blocks, conds=[(E, label, ty)], target, ret=E)."""
    if targets is None:
        targets = ok_blocks(fn, kinds)
    targets = set(targets)
    # reverse reachability
    can = set(targets)
    work = list(targets)
    while work:
        b = work.pop()
        for p, _ in fn.pred(b):
            if p not in can:
                can.add(p)
                work.append(p)
    out = []
    flags = _drop_flags(fn)

    def flag_updates(bb, fv):
        upd = None
        for s in fn.blocks[bb]["s"]:
            if s[0] == "=" and len(s[1]) == 1 and s[1][0] in flags and s[2][0] == "use" and isinstance(s[2][1], dict):
                if upd is None:
                    upd = dict(fv)
                upd[s[1][0]] = 0 if s[2][1].get("int", s[2][1].get("c", "")) in ("0", "const false", "false") else 1
        return fv if upd is None else upd

    def walk(bb, blocks, conds, onpath, fv):
        if len(out) >= max_paths:
            return
        blocks = blocks + [bb]
        if bb in targets:
            out.append({"blocks": blocks, "conds": conds, "target": bb})
            return
        fv = flag_updates(bb, fv)
        t = fn.blocks[bb]["t"]
        forced = _const_switch_edge(fn, bb)
        is_flag = t[0] == "switch" and isinstance(t[1], list) and len(t[1]) == 1 and t[1][0] in flags
        if is_flag and forced is None and t[1][0] in fv:
            v = fv[t[1][0]]
            forced = t[3]
            for val, tgt in t[2]:
                if int(val) == v:
                    forced = tgt
        for tgt, lab in fn.succ(bb):
            if tgt not in can or tgt in onpath or tgt == bb:
                continue
            if forced is not None and tgt != forced:
                continue
            if t[0] == "switch" and forced is None and not is_flag:
                vals = [int(v) for v, _ in t[2]]
                l = lab[1] if lab[0] == "val" else ("otherwise", tuple(vals))
                walk(tgt, blocks, conds + [(bb, l, t[4])], onpath | {bb}, fv)
            else:
                walk(tgt, blocks, conds, onpath | {bb}, fv)

    if 0 in can:
        walk(0, [], [], frozenset(), {})
    if len(out) >= max_paths:
        # never analyse a truncated path set silently (fail closed: the caller's ctx.guard turns this into a violation)
        raise RuntimeError("success_paths(%s): more than %d paths — enumeration truncated" % (fn.short, max_paths))
    for p in out:
        ev = PathEval(fn, p["blocks"], track_places)
        p["ev"] = ev
        p["conds"] = [(ev.switch_cond(b), l, ty) for (b, l, ty) in p["conds"]]
        p["ret"] = ev.ret()
        p["calls"] = [fn.call_in_block(b) for b in p["blocks"] if fn.call_in_block(b) is not None]
    if feasible_only:
        out = [p for p in out if path_feasible(p)]
    return out


def path_feasible(p):
    """False if the path takes an edge contradicting a condition that is a constant on this path, or takes
    contradictory edges on two branches over the same (path-sensitive) condition value."""
    for cond, lab, ty in p["conds"]:
        cb = A.const_bool(cond)
        if cb is not None and ty == "bool":
            taken = isinstance(lab, tuple) or lab != 0
            if taken != cb:
                return False
    return A.feasible(p)


def path_truth(path, cond_re):
    """Truth value taken on `path` for the (first) boolean branch whose condition matches cond_re; None if absent."""
    for cond, lab, ty in path["conds"]:
        if ty == "bool" and re.search(cond_re, str(cond)):
            if isinstance(lab, tuple):
                return True      # otherwise-edge of `switch [0 -> ..]` = true
            return lab != 0
    return None


def path_calls(path, callee_re):
    return [c for c in path["calls"] if c.matches(callee_re)]


def stores_on_path(fn, path, dest_re=None):
    """Stores through a pointer (`*p = v`) and direct field stores executed on the path, in path order:
    list of dict(bb, pos, si, dest=E (pointer / place provenance), value=E, line)."""
    ev = path["ev"]
    out = []
    for i, bb in enumerate(path["blocks"]):
        for si, s in enumerate(fn.blocks[bb]["s"]):
            if s[0] != "=" or len(s[1]) < 2:
                continue
            pl = s[1]
            base = ev.op([pl[0]], i, si)
            d = base
            for pr in pl[1:]:
                d = fn._project(d, pr)
            if dest_re is not None and not re.search(dest_re, str(d)):
                continue
            out.append({"bb": bb, "pos": i, "si": si, "dest": d, "value": ev.rv(s[2], i, si), "line": fn.stmt_line(s)})
    return out


def uncovered_stores(fn, paths, dest_re):
    """Store sites (flow-insensitive, normal CFG) whose destination matches dest_re but which lie on none of the
    enumerated paths (success_paths does not unroll loops: a store inside a loop body would otherwise be missed)."""
    on = set()
    for p in paths:
        on.update(p["blocks"])
    out = []
    for w in A.field_writes(fn, dest_re):
        if w["kind"] == "assign" and not fn.blocks[w["bb"]].get("cleanup") and w["bb"] not in on:
            out.append(w)
    return out


def call_pos(path, cs):
    return path["ev"].pos.get(cs.bb)


def call_args_on_path(fn, path, cs):
    """Path-sensitive argument expressions of call site cs (which lies on the path)."""
    return path["ev"].call_args(cs)



# ------------------------------------------------------------------ path-sensitive evaluation (no depth limit)

sys.setrecursionlimit(max(sys.getrecursionlimit(), 20000))
_END = 10 ** 6          # statement index of a block's terminator


class PathEval:
    """Value provenance along ONE block path, statement-precise and memoised (Fn.expr_on_path falls back to the
    flow-insensitive `expr` beyond nesting depth 30, which `?`-heavy functions exceed).  Same conventions as
    Fn.expr: references / clone / into / deref are transparent; an operand of a call is the value at the call."""

    def __init__(self, fn, blocks, track_places=False):
        self.fn = fn
        self.track = track_places
        self._stores = None
        self.blocks = list(blocks)
        self.pos = {}
        for i, b in enumerate(self.blocks):
            self.pos[b] = i
        self.memo = {}
        self.defs = {}
        for n, ds in fn.defs().items():
            l = []
            for (bb, si, proj, rv) in ds:
                if bb in self.pos:
                    l.append((self.pos[bb], _END if si == "call" else si, proj, rv))
            l.sort(key=lambda d: (d[0], d[1]))
            self.defs[n] = l

    # value of operand `op` as read at (path index at, statement index si)
    def op(self, op, at=None, si=_END, _stack=()):
        fn = self.fn
        if isinstance(op, dict):
            return fn._const_expr(op)
        if at is None:
            at = len(self.blocks) - 1
        n = op[0]
        projs = [p for p in op[1:]]
        if 0 < n <= fn.arg_count:
            e = fn.local_expr(n)
            for p in projs:
                e = fn._project(e, p)
            return self._tracked(e, projs, at, si, _stack)
        key = (n, tuple(projs), at, si)
        if key in self.memo:
            return self.memo[key]
        np = [p for p in projs if p != "*"]
        best = None
        for d in self.defs.get(n, ()):
            if (d[0], d[1]) >= (at, si):
                break
            dp = [p for p in d[2] if p != "*"]
            if dp == np[:len(dp)]:
                best = d
        if best is None or (n, best[0], best[1]) in _stack:
            e = E("local", n, fn.locals[n][1])
            rest = projs
        else:
            e = self.rv(best[3], best[0], best[1], _stack + ((n, best[0], best[1]),))
            k = len([p for p in best[2] if p != "*"])
            rest = np[k:]
        for p in rest:
            e = fn._project(e, p)
        e = self._tracked(e, projs, at, si, _stack)
        self.memo[key] = e
        return e

    # -- optional: reads of a place that was stored to earlier on the path (through a pointer / field of a parameter)
    def _store_list(self):
        if self._stores is None:
            self._stores = []          # guard against re-entrance while building
            acc = []
            for i, bb in enumerate(self.blocks):
                for si, st in enumerate(self.fn.blocks[bb]["s"]):
                    if st[0] != "=" or len(st[1]) < 2:
                        continue
                    pl = st[1]
                    if not any(p.startswith(".") for p in pl[1:]):
                        continue
                    base = self.op([pl[0]], i, si)
                    d = base
                    for pr in pl[1:]:
                        d = self.fn._project(d, pr)
                    acc.append((i, si, str(d), st[2]))
            self._stores = acc
        return self._stores

    def _tracked(self, e, projs, at, si, _stack):
        if not self.track or e.k != "field" or not any(p.startswith(".") for p in projs):
            return e
        s = str(e)
        best = None
        for (i, sj, ds, rv) in self._store_list():
            if (i, sj) >= (at, si):
                break
            if ds == s:
                best = (i, sj, rv)
        if best is None or ("place", s, best[0], best[1]) in _stack:
            return e
        return self.rv(best[2], best[0], best[1], _stack + (("place", s, best[0], best[1]),))

    def rv(self, rv, at, si, _stack=()):
        fn = self.fn
        from .model import CallSite, TRANSPARENT_CALLS
        sub = lambda o: self.op(o, at, si, _stack)
        if isinstance(rv, CallSite):
            name = rv.short
            args = tuple(sub(a) for a in rv.args)
            if name in TRANSPARENT_CALLS and len(args) == 1:
                return args[0]
            if name == "Try::branch" and len(args) == 1:
                return E("trybranch", args[0])
            return E("call", name, args, rv)
        k = rv[0]
        if k == "use":
            return sub(rv[1])
        if k in ("ref", "rawptr"):
            return sub(rv[2])
        if k == "bin":
            return E("bin", rv[1], sub(rv[2]), sub(rv[3]))
        if k == "un":
            return E("un", rv[1], sub(rv[2]))
        if k == "cast":
            inner = sub(rv[2])
            if rv[1].startswith("PointerCoercion") or rv[1] in ("PtrToPtr", "Transmute"):
                return inner
            return E("cast", inner, short_path(rv[3], 1))
        if k == "discr":
            return E("discr", sub(rv[1]))
        if k == "len":
            return E("len", sub(rv[1]))
        if k == "agg" and rv[1] == "adt":
            names = rv[3]
            adt = short_path(rv[2], 1)
            nm = adt if names[0] == adt else "%s::%s" % (adt, names[0])
            return E("agg", nm, tuple((names[1:][i] if i < len(names) - 1 else str(i), sub(o)) for i, o in enumerate(rv[4])))
        if k == "agg" and rv[1] != "closure":
            return E("agg", rv[1], tuple((str(i), sub(o)) for i, o in enumerate(rv[4])))
        if k == "agg" and rv[1] == "closure":
            return E("closure", rv[2], tuple(sub(o) for o in rv[4]), tuple(rv[3]))
        return fn._rvalue_expr(rv, 0, ())

    def call_args(self, cs):
        at = self.pos[cs.bb]
        return [self.op(a, at, _END) for a in cs.args]

    def call_value(self, cs):
        """E for the result of call site cs (args evaluated at the call)."""
        return self.rv(cs, self.pos[cs.bb], _END)

    def ret(self):
        return self.op([0], len(self.blocks) - 1, _END + 1)

    def switch_cond(self, bb):
        t = self.fn.blocks[bb]["t"]
        return self.op(t[1], self.pos[bb], _END)


# ------------------------------------------------------------------ linear forms

LIN_ADD = {"CheckedAdd::checked_add", "Unsigned::checked_add_with_signed"}
LIN_SUB = {"CheckedSub::checked_sub", "Unsigned::checked_sub_with_signed"}
LIN_NEG = {"CheckedNeg::checked_neg", "Unsigned::to_opposite_signed", "Neg::neg"}
LIN_ID = {"Unsigned::to_signed", "Option::ok_or", "Option::ok_or_else", "Result::map_err", "TryInto::try_into",
          "TryFrom::try_from", "Option::expect", "Result::expect", "Option::unwrap", "Result::unwrap"}
LIN_ZERO = {"Zero::zero"}
ABS = {"UnsignedAbs::unsigned_abs"}


class Lin(dict):
    """atom-key -> integer coefficient. `opaque` lists sub-expressions that were not linear (kept as atoms)."""

    def add(self, other, k=1):
        r = Lin(self)
        for a, c in other.items():
            r[a] = r.get(a, 0) + k * c
            if r[a] == 0:
                del r[a]
        return r

    def scale(self, k):
        return Lin({a: c * k for a, c in self.items() if c * k})

    def show(self):
        if not self:
            return "0"
        return " ".join("%s%s%s" % ("+" if c > 0 else "-", "" if abs(c) == 1 else "%d*" % abs(c), a)
                        for a, c in sorted(self.items()))


def atom_name(e, namer=None):
    """Stable, readable identity of an opaque value: callee names along the provenance chain with the
    projections applied, WITHOUT the (huge) argument lists — plus what `namer(e)` adds to tell call sites apart."""
    if namer is not None:
        n = namer(e)
        if n is not None:
            return n
    k = e.k
    if k == "call":
        cs = e.a[2] if len(e.a) > 2 else None
        return "%s()%s" % (e.a[0].split("::")[-1], "@bb%d" % cs.bb if cs is not None else "")
    if k == "try":
        return atom_name(e.a[0], namer)
    if k == "field":
        return "%s.%s" % (atom_name(e.a[0], namer), e.a[1])
    if k == "variant":
        return "%s@%s" % (atom_name(e.a[0], namer), e.a[1])
    return str(e)


def lin_of(e, namer=None, sign_of=None):
    """Linear form of expression e. `namer(E)->str|None` names atoms (must tell different call sites apart);
    `sign_of(E)->+1|-1|None` gives the known sign of the argument of unsigned_abs (None: |x| stays an atom)."""
    k = e.k
    if k == "try":
        return lin_of(e.a[0], namer, sign_of)
    if k == "call":
        nm, args = e.a[0], e.a[1]
        if nm in LIN_ADD and len(args) == 2:
            return lin_of(args[0], namer, sign_of).add(lin_of(args[1], namer, sign_of))
        if nm in LIN_SUB and len(args) == 2:
            return lin_of(args[0], namer, sign_of).add(lin_of(args[1], namer, sign_of), -1)
        if nm in LIN_NEG and len(args) == 1:
            return lin_of(args[0], namer, sign_of).scale(-1)
        if nm in LIN_ID and len(args) >= 1:
            return lin_of(args[0], namer, sign_of)
        if nm in LIN_ZERO and not args:
            return Lin()
        if nm in ABS and len(args) == 1:
            s = sign_of(args[0]) if sign_of else None
            if s is not None:
                return lin_of(args[0], namer, sign_of).scale(s)
            return Lin({"|%s|" % atom_name(args[0], namer): 1})
    if k == "const" and e.a[0] == "0":
        return Lin()
    if k == "phi":
        return Lin({"phi(%s)" % "|".join(sorted(lin_of(x, namer, sign_of).show() for x in e.alts())): 1})
    return Lin({atom_name(e, namer): 1})


# ------------------------------------------------------------------ Delta constructors


def side_shape(e, side_re):
    """'S' if e is the side flag (matches side_re), '!S' if its negation, 'true'/'false' if constant, else None."""
    if e.k == "un" and e.a[0] == "Not":
        s = side_shape(e.a[1], side_re)
        return {"S": "!S", "!S": "S", "true": "false", "false": "true"}.get(s)
    cb = A.const_bool(e)
    if cb is not None:
        return "true" if cb else "false"
    if re.search(side_re, str(e)):
        return "S"
    return None


def delta_sides(e, side_re):
    """For an expression that is a Delta constructor call, return {side-shape: amount E} or None.
    side-shape in 'S','!S','true','false' (true = long)."""
    if e.k != "call":
        return None
    nm, args = e.a[0], e.a[1]
    neg = {"S": "!S", "!S": "S", "true": "false", "false": "true"}
    if nm == "Delta::new_one_side" and len(args) == 2:
        s = side_shape(args[0], side_re)
        return None if s is None else {s: args[1]}
    if nm == "Delta::new_both_sides" and len(args) == 3:
        s = side_shape(args[0], side_re)
        return None if s is None else {s: args[1], neg[s]: args[2]}
    if nm == "Delta::new_with_long" and len(args) == 1:
        return {"true": args[0]}
    if nm == "Delta::new_with_short" and len(args) == 1:
        return {"false": args[0]}
    return None


# ------------------------------------------------------------------ pool effects along a path (token ledger)

_POOL_OF_RECV = re.compile(r"(?:^|::)(\w+?)_pool_mut\(")


def pool_effects(fn, path, expand=True, no_expand_re=None):
    """Token-ledger effects executed on the path, in order: list of dict(pool, side=E, amount=E, mult=+1|-1, cs, why).
    Recognised primitives (bodies checked by the C08 rule `conserve:primitive:*`):
      BaseMarketMutExt::apply_delta(m, side, d)                        liquidity[side] += d
      BaseMarketMutExt::apply_delta_to_claimable_fee_pool(m, side, d)  claimable_fee[side] += d
      PoolExt::apply_delta_amount(<x>_pool_mut(..)?, side, d)          <x>[side] += d
      SwapMarketMutExt::apply_swap_impact_value_with_cap(m, side, price, usd) -> r
                                                                       swap_impact[side] -= r if usd > 0, += r if usd < 0
    Calls to private same-file helpers are expanded (see `events`), so the primitives are found whether or not a helper
    sits in between.  Unknown sign / receiver -> entry with pool=None (callers must fail closed)."""
    out = []
    evs = events(fn, path, no_expand_re=no_expand_re) if expand else [
        {"short": c.short, "args": path["ev"].call_args(c), "value": path["ev"].call_value(c), "cs": c, "inner": c, "conds": []} for c in path["calls"]]
    for e in evs:
        sh, a, c = e["short"], e["args"], e["cs"]
        if sh == "BaseMarketMutExt::apply_delta":
            out.append({"pool": "liquidity", "side": a[1], "amount": a[2], "mult": 1, "cs": c})
        elif sh == "BaseMarketMutExt::apply_delta_to_claimable_fee_pool":
            out.append({"pool": "claimable_fee", "side": a[1], "amount": a[2], "mult": 1, "cs": c})
        elif sh == "PoolExt::apply_delta_amount":
            m = _POOL_OF_RECV.search(str(a[0]))
            out.append({"pool": m.group(1) if m else None, "side": a[1], "amount": a[2], "mult": 1, "cs": c, "recv": a[0]})
        elif sh == "SwapMarketMutExt::apply_swap_impact_value_with_cap":
            usd = str(a[3])
            mult = None
            for cond, lab, ty in list(path["conds"]) + list(e["conds"]):
                if ty == "bool" and cond.k == "call" and len(cond.a[1]) == 1 and str(cond.a[1][0]) == usd:
                    taken = isinstance(lab, tuple) or lab != 0
                    if cond.a[0] == "Signed::is_positive" and taken:
                        mult = -1
                    if cond.a[0] == "Signed::is_negative" and taken:
                        mult = 1
            out.append({"pool": "swap_impact" if mult is not None else None, "side": a[1], "amount": e["value"], "mult": mult or 1, "cs": c})
    return out


def impossible_sign_path(path):
    """A path that takes the true edge of is_positive/is_negative on a literal zero cannot execute."""
    for cond, lab, ty in path["conds"]:
        if ty == "bool" and cond.k == "call" and cond.a[0] in ("Signed::is_positive", "Signed::is_negative") and \
                len(cond.a[1]) == 1 and str(cond.a[1][0]) == "Zero::zero()" and (isinstance(lab, tuple) or lab != 0):
            return True
    return False


def ledger(effects, side_re, lin, pools=None):
    """Sum the effects per side shape ('S', '!S', 'true', 'false'); returns ({shape: Lin}, problems)."""
    tot = {}
    bad = []
    for e in effects:
        if pools is not None and e["pool"] not in pools:
            if e["pool"] is None:
                bad.append("unclassified effect %s" % e["cs"].short)
            continue
        if e["pool"] is None:
            bad.append("unclassified effect %s" % e["cs"].short)
            continue
        s = side_shape(e["side"], side_re)
        if s is None:
            bad.append("%s: side %s is not derived from the side flag" % (e["cs"].short, str(e["side"])[:60]))
            continue
        tot[s] = tot.get(s, Lin()).add(lin(e["amount"]), e["mult"])
    return tot, bad


# ------------------------------------------------------------------ inlining linear evaluator (small pure helpers)


def _render(e, subst):
    k = e.k
    if k == "param":
        return subst.get(e.a[1], e.a[1] or "_%d" % e.a[0])
    if k == "upvar":
        return subst.get("^" + e.a[0], subst.get(e.a[0], e.a[0]))   # a capture has its parent's name
    if k == "try":
        return _render(e.a[0], subst)
    if k == "field":
        return "%s.%s" % (_render(e.a[0], subst), e.a[1])
    if k == "variant":
        return "%s@%s" % (_render(e.a[0], subst), e.a[1])
    if k == "call":
        return "%s(%s)" % (e.a[0].split("::")[-1], ", ".join(_render(x, subst) for x in e.a[1]))
    return str(e)


def sym_lin(prog, e, subst=None, choose=None, inline_re=r"^gmsol_model::params::fee::", depth=0):
    """Linear form of `e` where calls into small pure local functions (id matching inline_re; one chosen success path,
    no loops) and `and_then(x, closure)` combinators are evaluated by substitution instead of being opaque.
    subst: name -> rendered atom (str) or Lin for parameters / upvars; choose(path)->bool selects the callee/closure path
    when several exist (e.g. the liquidation Some/None case). Atoms are rendered access paths."""
    subst = subst or {}
    k = e.k

    def rec(x, s=subst):
        return sym_lin(prog, x, s, choose, inline_re, depth + 1)

    if depth > 40:
        return Lin({_render(e, {n: v for n, v in subst.items() if isinstance(v, str)}): 1})
    if k == "try":
        return rec(e.a[0])
    if k == "agg" and (e.a[0].endswith("::Ok") or e.a[0].endswith("::Some")) and len(e.a[1]) == 1:
        return rec(e.a[1][0][1])
    if k in ("param", "upvar"):
        nm = e.a[1] if k == "param" else "^" + e.a[0]
        v = subst.get(nm, subst.get(nm.lstrip("^")))
        if isinstance(v, Lin):
            return Lin(v)
    if k == "const" and e.a[0] == "0":
        return Lin()
    if k == "call":
        nm, args = e.a[0], e.a[1]
        if nm in LIN_ADD and len(args) == 2:
            return rec(args[0]).add(rec(args[1]))
        if nm in LIN_SUB and len(args) == 2:
            return rec(args[0]).add(rec(args[1]), -1)
        if nm in LIN_NEG and len(args) == 1:
            return rec(args[0]).scale(-1)
        if nm in LIN_ID and len(args) >= 1:
            return rec(args[0])
        if nm in LIN_ZERO and not args:
            return Lin()
        if nm in ("Option::and_then", "Result::and_then", "Option::map") and len(args) == 2 and args[1].k == "closure":
            cf = prog.fns.get(args[1].a[0])
            if cf is not None:
                x = rec(args[0])
                pname = cf.locals[cf.arg_count][1] if cf.arg_count >= 1 else None   # last argument = closure parameter
                s2 = dict(subst)
                # upvars of the closure keep the caller's names (^self -> self)
                for n, v in subst.items():
                    s2["^" + n.lstrip("^")] = v
                if pname:
                    s2[pname] = x
                ps = [p for p in success_paths(cf, kinds=("ok", "unknown")) if choose is None or choose(p) is not False]
                vals = []
                for p in ps:
                    v = sym_lin(prog, p["ret"], s2, choose, inline_re, depth + 1)
                    if v not in vals:
                        vals.append(v)
                if len(vals) == 1:
                    return vals[0]
        cs = e.a[2] if len(e.a) > 2 else None
        target = None
        if cs is not None:
            for nmx in (cs.resolved, cs.callee):
                if nmx and nmx in prog.fns and re.search(inline_re, nmx):
                    target = prog.fns[nmx]
                    break
        if target is not None:
            argl = [rec(a) for a in args]
            s2 = {}
            okb = True
            for i in range(target.arg_count):
                pn = target.locals[i + 1][1]
                if pn is None or i >= len(argl):
                    okb = False
                    break
                a = argl[i]
                if len(a) == 1 and list(a.values()) == [1]:
                    s2[pn] = list(a)[0]
                else:
                    s2[pn] = a
            if okb:
                ps = [p for p in success_paths(target, kinds=("ok", "unknown"), max_paths=64) if choose is None or choose(p) is not False]
                vals = []
                for p in ps:
                    v = sym_lin(prog, p["ret"], s2, choose, inline_re, depth + 1)
                    if v not in vals:
                        vals.append(v)
                if len(vals) == 1:
                    return vals[0]
    return Lin({_render(e, {n: v for n, v in subst.items() if isinstance(v, str)}): 1})


# ------------------------------------------------------------------ interprocedural view over PRIVATE helpers
# A private helper (visibility Restricted, same source file) is not a stable anchor: extracting or inlining one is a
# behaviour-preserving refactor.  `events` flattens the calls executed on a path, expanding calls to such helpers by
# substituting the caller's argument provenance for the helper's parameters, so rules see the same primitives with the
# same operands whether or not a helper sits in between.


def subst_params(e, mapping):
    """Rebuild expression e with parameter nodes replaced according to mapping {param name: E}."""
    k, a = e.k, e.a
    sub = lambda x: subst_params(x, mapping)
    if k == "param":
        return mapping.get(a[1], e)
    if k in ("field", "variant", "cast"):
        return E(k, sub(a[0]), a[1])
    if k == "index":
        return E(k, sub(a[0]), sub(a[1]) if isinstance(a[1], E) else a[1])
    if k == "call":
        return E("call", a[0], tuple(sub(x) for x in a[1]), *a[2:])
    if k in ("try", "discr", "len", "trybranch"):
        return E(k, sub(a[0]))
    if k == "bin":
        return E(k, a[0], sub(a[1]), sub(a[2]))
    if k == "un":
        return E(k, a[0], sub(a[1]))
    if k == "agg":
        return E(k, a[0], tuple((n, sub(v)) for n, v in a[1]))
    if k == "phi":
        return E(k, tuple(sub(x) for x in a[0]))
    if k == "closure":
        return E(k, a[0], tuple(sub(x) for x in a[1]), *a[2:])
    return e


def is_private_helper(caller, callee):
    return callee is not None and callee.crate == caller.crate and str(callee.vis).startswith("Restricted") and \
        callee.file == caller.file and "{closure" not in callee.id and callee.id != caller.id


def events(fn, path, expand_re=None, no_expand_re=None, _depth=0, _mapping=None, _outer=None):
    """Calls executed on `path`, in order, with private same-file helpers expanded (recursively, depth <= 3).
    Each event: dict(short, args=[E], value=E, cs=<call site in the TOP-LEVEL function>, inner=<actual call site>,
    depth, conds=[(E, label, ty)] of the helper path it came from).  A helper is expanded only if all its success
    paths yield the same event signature; otherwise it stays a single opaque event (rules then fail closed if they
    needed its contents)."""
    prog = fn.prog
    ev = path["ev"]
    out = []
    for c in path["calls"]:
        args = ev.call_args(c)
        val = ev.call_value(c)
        if _mapping is not None:
            args = [subst_params(a, _mapping) for a in args]
            val = subst_params(val, _mapping)
        top = _outer or c
        rec = {"short": c.short, "args": args, "value": val, "cs": top, "inner": c, "depth": _depth, "conds": []}
        callee = None
        for g in prog.callees(c):
            callee = g
            break
        can = _depth < 3 and callee is not None and len(prog.callees(c)) == 1 and is_private_helper(fn, callee) and \
            (no_expand_re is None or not re.search(no_expand_re, callee.id)) and (expand_re is None or re.search(expand_re, callee.id))
        if can:
            try:
                cps = success_paths(callee, kinds=("ok", "unknown"), max_paths=64)
            except RuntimeError:
                cps = []
            mapping = {}
            for i in range(min(callee.arg_count, len(args))):
                pn = callee.locals[i + 1][1]
                if pn:
                    mapping[pn] = args[i]
            alts = []
            for cp in cps:
                sub = events(callee, cp, expand_re, no_expand_re, _depth + 1, mapping, top)
                cc = [(subst_params(x, mapping), l, t) for x, l, t in cp["conds"]]
                for s_ in sub:
                    s_["conds"] = s_["conds"] + cc
                sig = [(s_["short"], tuple(str(a) for a in s_["args"])) for s_ in sub]
                if sig not in [x[0] for x in alts]:
                    alts.append((sig, sub))
            if len(alts) == 1:
                rec["expanded"] = callee.id
                rets = []
                for cp in cps:
                    r = subst_params(cp["ret"], mapping)
                    if str(r) not in [str(x) for x in rets]:
                        rets.append(r)
                if len(rets) == 1:
                    rec["ret"] = rets[0]          # the helper's result in the caller's terms (see inline_helper_values)
                out.append(rec)
                out.extend(alts[0][1])
                continue
        out.append(rec)
    return out


def deep_calls(fn, path, short_re, **kw):
    return [e for e in events(fn, path, **kw) if re.search(short_re, e["short"])]


def chain_root(x):
    """Strip `?`, field projections and ok_or/map_err wrappers: (root E, projection string)."""
    proj = ""
    m = x
    while True:
        if m.k == "try":
            m = m.a[0]
        elif m.k == "field":
            proj = "." + m.a[1] + proj
            m = m.a[0]
        elif m.k == "call" and m.a[0] in ("Option::ok_or", "Result::map_err") and m.a[1]:
            m = m.a[1][0]
        else:
            return m, proj


def inline_helper_values(e, evs):
    """Replace, inside expression e, the opaque result of every expanded private helper call (an event with 'ret') by the
    helper's own result expression in the caller's terms — so a value computed in a helper and the same value computed
    inline have the same provenance."""
    byid = {}
    for ev_ in evs:
        if "ret" in ev_:
            byid[id(ev_["inner"])] = ev_["ret"]
    if not byid:
        return e

    def sub(x):
        k, a = x.k, x.a
        if k == "call" and len(a) > 2 and id(a[2]) in byid:
            return sub(byid[id(a[2])])
        if k in ("field", "variant", "cast"):
            return x.__class__(k, sub(a[0]), a[1]) if k != "field" else _proj_field(sub(a[0]), a[1])
        if k == "index":
            return E(k, sub(a[0]), sub(a[1]) if isinstance(a[1], E) else a[1])
        if k == "call":
            return E("call", a[0], tuple(sub(y) for y in a[1]), *a[2:])
        if k in ("try", "discr", "len", "trybranch"):
            inner = sub(a[0])
            if k == "try" and inner.k == "agg" and (inner.a[0].endswith("::Ok") or inner.a[0].endswith("::Some")) and len(inner.a[1]) == 1:
                return inner.a[1][0][1]          # Ok(v)? == v
            return E(k, inner)
        if k == "bin":
            return E(k, a[0], sub(a[1]), sub(a[2]))
        if k == "un":
            return E(k, a[0], sub(a[1]))
        if k == "agg":
            return E(k, a[0], tuple((n, sub(v)) for n, v in a[1]))
        return x
    return sub(e)


def _proj_field(base, name):
    if base.k == "agg":
        for n, v in base.a[1]:
            if n == name:
                return v
    return E("field", base, name)
