"""Debug pretty-printer: python3 -m gmxsa.pp <crate[,crate]> <fn-regex> [--expr]"""
import sys
from .model import Program, short_path


def op_s(o):
    if isinstance(o, dict):
        if "fn" in o:
            return "fn:" + short_path(o["fn"])
        return o.get("int") or o.get("c", "?")
    return "_%d%s" % (o[0], "".join(o[1:]))


def rv_s(rv):
    k = rv[0]
    if k == "use":
        return op_s(rv[1])
    if k == "ref":
        return "&%s %s" % (rv[1] if rv[1] != "shared" else "", op_s(rv[2]))
    if k == "bin":
        return "%s(%s, %s)" % (rv[1], op_s(rv[2]), op_s(rv[3]))
    if k == "un":
        return "%s(%s)" % (rv[1], op_s(rv[2]))
    if k == "cast":
        return "%s as %s [%s]" % (op_s(rv[2]), rv[3], rv[1])
    if k == "discr":
        return "discr(%s)" % op_s(rv[1])
    if k == "agg":
        return "%s %s %s [%s]" % (rv[1], short_path(rv[2], 1) if rv[2] else "", (rv[3] or [""])[0] if rv[1] == "adt" else "", ", ".join(op_s(o) for o in rv[4]))
    return str(rv)


def pp(fn, exprs=False):
    print("fn %s  (%s:%d) args=%d mac=%s" % (fn.id, fn.file, fn.line, fn.arg_count, fn.mac))
    for i, (ty, nm) in enumerate(fn.locals):
        if nm:
            print("   let _%d: %s  // %s" % (i, ty, nm))
    for i, b in enumerate(fn.blocks):
        if b.get("cleanup"):
            continue
        print(" bb%d:%s" % (i, "  mac=%s" % b["mac"] if b.get("mac") else ""))
        for s in b["s"]:
            if s[0] == "=":
                print("    %s = %s    // L%s" % (op_s(s[1]), rv_s(s[2]), s[3]))
            else:
                print("    %s" % (s,))
        t = b["t"]
        if t[0] == "call":
            c = t[1]
            print("    %s = CALL %s [%s] (%s) -> bb%s   // L%s" % (op_s(c["dest"]), short_path(c.get("callee")), short_path(c.get("resolved")) if c.get("resolved") else "", ", ".join(op_s(a) for a in c["args"]), c.get("target"), c.get("fline")))
            if exprs:
                cs = fn.call_in_block(i)
                print("        :: %s" % fn._call_expr(cs, 0, ()))
        elif t[0] == "switch":
            print("    SWITCH %s %s else bb%d" % (op_s(t[1]), t[2], t[3]))
            if exprs:
                print("        :: %s" % fn.expr(t[1]))
        elif t[0] == "assert":
            print("    ASSERT %s==%s %s -> bb%d" % (op_s(t[1]), t[2], t[3], t[4]))
        elif t[0] == "drop":
            print("    DROP %s -> bb%d" % (op_s(t[1]), t[2]))
        else:
            print("    %s" % " ".join(str(x) for x in t))
    if exprs:
        print(" exits:")
        for bb, k, e in fn.exits():
            print("   bb%d %s %s" % (bb, k, e))


if __name__ == "__main__":
    crates = sys.argv[1].split(",")
    prog = Program(crates)
    for f in prog.find_fns(sys.argv[2]):
        pp(f, "--expr" in sys.argv)
        print()
