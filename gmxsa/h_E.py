"""Helpers of rule group E (C26 C27 C28 C34 C35 C41 C43).

LinFn — affine forms over MIR locals (Karr-style, A11b) + dominating comparison facts (A9-lite):

  * an operand is expanded through single-definition temporaries, widening casts, `+`, `-`, `<< const`,
    `* const`, `.0` of an overflow-checked op, successful `checked_add/checked_sub`, and calls to small
    straight-line local functions (inlined) into   k + sum(c_i * atom_i)   where atoms are MIR places
    (parameters, multiply-defined locals, fields read through shared references);
  * every expansion / every fact is only used at a site if none of its atoms can be redefined between the
    point where it was read and the site (CFG region check), so mutable locals (`exp -= d`) are handled
    without versioning mistakes;
  * facts come from the branch edges that dominate a site (`<,<=,>,>=,==` on integers, `Ord::cmp` matches,
    `PartialOrd::{lt,le,gt,ge}`), each as a form F with the meaning  F >= 0;
  * `nonneg(L, site)`  holds if the interval lower bound of L is >= 0, or of  L - F  for one dominating fact F
    (a purely syntactic implication check — no solver);
  * `ub(L, site)` interval upper bound; the bound of a multiply-defined local is the maximum over its
    definitions, each evaluated with the facts of its own site (least fixpoint for self-referential updates).

Nothing here depends on local numbering, statement order of independent statements or source text.
"""
import re

from .model import short_path

TERM = 10 ** 6
INT_RANGE = {
    "u8": (0, 2 ** 8 - 1), "u16": (0, 2 ** 16 - 1), "u32": (0, 2 ** 32 - 1), "u64": (0, 2 ** 64 - 1),
    "u128": (0, 2 ** 128 - 1), "usize": (0, 2 ** 64 - 1),
    "i8": (-2 ** 7, 2 ** 7 - 1), "i16": (-2 ** 15, 2 ** 15 - 1), "i32": (-2 ** 31, 2 ** 31 - 1),
    "i64": (-2 ** 63, 2 ** 63 - 1), "i128": (-2 ** 127, 2 ** 127 - 1), "isize": (-2 ** 63, 2 ** 63 - 1),
}
INF = float("inf")
CMP = {"Lt": "<", "Le": "<=", "Gt": ">", "Ge": ">=", "Eq": "==", "Ne": "!="}
NEG = {"<": ">=", "<=": ">", ">": "<=", ">=": "<", "==": "!=", "!=": "=="}
CMP_CALLS = {"lt": "<", "le": "<=", "gt": ">", "ge": ">=", "eq": "==", "ne": "!="}


class Lin:
    """k + sum c[a]*a"""
    __slots__ = ("c", "k")

    def __init__(self, c=None, k=0):
        self.c = {a: v for a, v in (c or {}).items() if v != 0}
        self.k = k

    @staticmethod
    def atom(a):
        return Lin({a: 1}, 0)

    def add(self, o, s=1):
        c = dict(self.c)
        for a, v in o.c.items():
            c[a] = c.get(a, 0) + s * v
        return Lin(c, self.k + s * o.k)

    def sub(self, o):
        return self.add(o, -1)

    def scale(self, m):
        return Lin({a: v * m for a, v in self.c.items()}, self.k * m)

    def is_const(self):
        return not self.c

    def atoms(self):
        return list(self.c)

    def key(self):
        return (tuple(sorted(self.c.items())), self.k)

    def __eq__(self, o):
        return isinstance(o, Lin) and self.key() == o.key()

    def __hash__(self):
        return hash(self.key())

    def render(self, namer=lambda a: a):
        parts = []
        for a, v in sorted(self.c.items(), key=lambda kv: (-kv[1], namer(kv[0]))):
            n = namer(a)
            if v == 1:
                parts.append("+" + n)
            elif v == -1:
                parts.append("-" + n)
            else:
                parts.append("%+d*%s" % (v, n))
        if self.k or not parts:
            parts.append("%+d" % self.k)
        s = "".join(parts)
        return s[1:] if s.startswith("+") else s

    __repr__ = __str__ = lambda self: self.render()


def _base(atom):
    """local index an atom is rooted in."""
    m = re.match(r"_(\d+)", atom)
    return int(m.group(1)) if m else None


class LinFn:
    def __init__(self, fn, prog=None, inline=True):
        self.fn = fn
        self.prog = prog or fn.prog
        self.inline = inline
        self._alldefs = None
        self._reaching = {}
        self._ub_busy = {}
        self.atom_ty = {}
        self._facts_cache = {}
        self.extra_bounds = {}      # atom -> (lo, hi) from recognised producers (Range loop variables, ...)
        self.extra_facts = {}       # atom -> [Lin >= 0] side facts of the atom's producer (checked_sub success, ...)
        self.assumed = []           # [(Lin >= 0, point)] declared facts (representation invariants, callee post-conditions)
        self._mem_events = None
        self.alias = {}             # atom -> canonical display name (loop indices)
        self.atom_place = {}        # memory atom -> canonical place list

    # ------------------------------------------------------------------ CFG helpers
    def all_defs(self):
        """local -> [(bb, idx)] for every write (whole or partial) or &mut borrow of the local."""
        if self._alldefs is None:
            d = {}
            fn = self.fn
            for bb, si, s in fn.statements():
                if s[0] in ("=", "setdiscr"):
                    pl = s[1]
                    if "*" not in pl[1:]:
                        d.setdefault(pl[0], []).append((bb, si))
                    if s[0] == "=" and s[2][0] in ("ref", "rawptr") and s[2][1] not in ("shared", "Not", "const", "fake"):
                        p2 = s[2][2]
                        if "*" not in p2[1:]:
                            d.setdefault(p2[0], []).append((bb, si))
            for cs in fn.calls:
                pl = cs.dest
                if "*" not in pl[1:]:
                    d.setdefault(pl[0], []).append((cs.bb, TERM))
            self._alldefs = d
        return self._alldefs

    def reaching(self, bb, avoid=None):
        """blocks from which bb is reachable (inclusive) without passing through block `avoid`."""
        key = (bb, avoid)
        if key not in self._reaching:
            seen = {bb}
            st = [bb]
            while st:
                b = st.pop()
                for p, _ in self.fn.pred(b):
                    if p not in seen and p != avoid:
                        seen.add(p)
                        st.append(p)
            self._reaching[key] = seen
        return self._reaching[key]

    def in_cycle(self, bb):
        for t, _ in self.fn.succ(bb):
            if bb in self.fn.reachable_from(t):
                return True
        return False

    def no_def_between(self, local, P, S):
        """No write to `local` between the most recent execution of point P and point S (both exclusive):
        i.e. on no path from P to S that does not pass through P again."""
        defs = self.all_defs().get(local, [])
        return self._no_event_between(defs, P, S)

    def _no_event_between(self, defs, P, S):
        if not defs:
            return True
        (pb, pi), (sb, si) = P, S
        if pb == sb and pi <= si:
            return not any(b == pb and pi < i < si for b, i in defs)
        fwd = set()
        for t, _ in self.fn.succ(pb):
            if t != pb:
                fwd |= self.fn.reachable_from(t, avoid_blocks=(pb,))
        if pb != sb and sb not in fwd:
            return True         # S not reachable from P at all
        region = fwd & self.reaching(sb, pb if pb != sb else None)
        s_cyclic = False
        if sb != pb:
            for t, _ in self.fn.succ(sb):
                if t != pb and sb in self.fn.reachable_from(t, avoid_blocks=(pb,)):
                    s_cyclic = True
        for b, i in defs:
            if b == pb:
                if i > pi or (pb == sb and i < si):
                    return False
                continue
            if b in region:
                if b == sb and not s_cyclic:
                    if i < si:
                        return False
                    continue
                return False
        return True

    def valid_between(self, lin, P, S):
        for a in lin.atoms():
            b = _base(a)
            if b is None:
                continue
            if a in self.atom_place:
                pl = self.atom_place[a]
                evs = [(bb, i) for bb, i, w in self.mem_events() if self._proj_conflict(pl, w)]
                if not self._no_event_between(evs, P, S):
                    return False
            if 0 < b <= self.fn.arg_count and not self.all_defs().get(b):
                continue
            if not self.no_def_between(b, P, S):
                return False
        return True

    # ------------------------------------------------------------------ memory places
    def canon_place(self, pl, depth=0):
        """Resolve the base local of place `pl` through copies of references and (re)borrows:
        `_x = &[mut] P`  =>  `_x*` == P ;  `_x = P` (copy/move of a reference) => `_x` == P."""
        pl = list(pl)
        while depth < 12:
            depth += 1
            n = pl[0]
            if 0 < n <= self.fn.arg_count:
                break
            d = self._single_def(n)
            if d is None or d[1] == "call":
                break
            rv = d[3]
            if rv[0] in ("ref", "rawptr") and len(pl) > 1 and pl[1] == "*":
                pl = list(rv[2]) + pl[2:]
                continue
            if rv[0] == "use" and not isinstance(rv[1], dict) and len(pl) > 1 and pl[1] == "*":
                pl = list(rv[1]) + pl[1:]
                continue
            if rv[0] == "cast" and not isinstance(rv[2], dict) and len(pl) > 1 and pl[1] == "*" and str(rv[1]).startswith("PointerCoercion"):
                pl = list(rv[2]) + pl[1:]
                continue
            break
        return pl

    @staticmethod
    def _pl_str(pl):
        return "_%d%s" % (pl[0], "".join(pl[1:]))

    def mem_events(self):
        """Writes through pointers: list of (bb, idx, canonical place list). Sources: stores to places with a deref,
        `&mut` arguments handed to calls (the callee may write anywhere below the borrowed place)."""
        if getattr(self, "_mem_events", None) is None:
            ev = []
            fn = self.fn
            for bb, si, st in fn.statements():
                if st[0] in ("=", "setdiscr") and "*" in st[1][1:]:
                    ev.append((bb, si, self.canon_place(st[1])))
            for cs in fn.calls:
                for a in cs.args:
                    if isinstance(a, dict) or len(a) != 1:
                        continue
                    ty = fn.locals[a[0]][0]
                    if ty.startswith("&mut") or ty.startswith("*mut"):
                        ev.append((cs.bb, TERM, self.canon_place([a[0], "*"])))
                if len(cs.dest) > 1 and "*" in cs.dest[1:]:
                    ev.append((cs.bb, TERM, self.canon_place(cs.dest)))
            self._mem_events = ev
        return self._mem_events

    @staticmethod
    def _proj_conflict(a, w):
        """place paths (lists) overlap: one is a prefix of the other (index projections are wildcards)."""
        if a[0] != w[0]:
            return False
        for x, y in zip(a[1:], w[1:]):
            if x == y or (x.startswith("[") and y.startswith("[")):
                continue
            return False
        return True

    def assume(self, lin, P=(0, -1)):
        """Declare a fact `lin >= 0` that holds at point P (default: function entry)."""
        self.assumed.append((lin, P))
        self._facts_cache = {}

    # ------------------------------------------------------------------ naming
    def name(self, atom):
        if atom in self.alias:
            return self.alias[atom]
        b = _base(atom)
        if b is None:
            return atom
        nm = self.fn.locals[b][1]
        rest = atom[len("_%d" % b):]
        if nm:
            return nm + rest.replace("*", "")
        # unnamed temporary: describe by its (single) definition if possible
        ds = [d for d in self.fn.defs().get(b, []) if d[2] == ()]
        if len(ds) == 1 and ds[0][1] == "call":
            return ds[0][3].short.split("::")[-1] + "()" + rest
        return "tmp" + rest

    def render(self, lin):
        return lin.render(self.name)

    def ty_of_place(self, n, projs):
        if not projs:
            return self.fn.locals[n][0]
        return None

    # ------------------------------------------------------------------ forms
    def const_int(self, op):
        if isinstance(op, dict) and "int" in op:
            try:
                return int(op["int"])
            except ValueError:
                return None
        return None

    def lin_op(self, op, at, depth=0):
        """Affine form of operand `op` read at point `at`; None if it is not an integer place/const."""
        if isinstance(op, dict):
            v = self.const_int(op)
            if v is not None:
                return Lin({}, v)
            c = op.get("c", "")
            if op.get("ty") in INT_RANGE and re.match(r"^[A-Z][A-Z0-9_]*$", c) and "def" not in op:
                self.atom_ty[c] = op["ty"]          # const generic parameter: one symbolic value
                return Lin.atom(c)
            return None
        n = op[0]
        projs = list(op[1:])
        return self._lin_place(n, projs, at, depth)

    def _atom(self, n, projs, ty=None):
        if "*" in projs:
            pl = self.canon_place([n] + list(projs))
            n, projs = pl[0], pl[1:]
            a = self._pl_str(pl)
            self.atom_place[a] = pl
        a = "_%d%s" % (n, "".join(projs))
        if ty is None:
            ty = self.ty_of_place(n, projs)
        if ty is not None and a not in self.atom_ty:
            self.atom_ty[a] = ty.lstrip("&").strip()
        return Lin.atom(a)

    def _note_ty(self, r, ty):
        """a temporary of integer type `ty` is a plain copy of a lone atom: the atom has that type."""
        if r is not None and r.k == 0 and len(r.c) == 1 and ty in INT_RANGE:
            (a, c), = r.c.items()
            if c == 1 and a not in self.atom_ty:
                self.atom_ty[a] = ty

    def _single_def(self, n):
        ds = [d for d in self.fn.defs().get(n, []) if "*" not in d[2]]     # stores THROUGH a pointer do not define it
        whole = [d for d in ds if d[2] == ()]
        if len(ds) == 1 and len(whole) == 1:
            return whole[0]
        return None

    def _lin_place(self, n, projs, at, depth):
        fn = self.fn
        if depth > 60:
            return self._atom(n, projs)
        is_param = 0 < n <= fn.arg_count
        # deref of a shared reference created from a place: read the place
        if projs and projs[0] == "*" and not is_param:
            d = self._single_def(n)
            if d is not None and d[1] != "call" and d[3][0] == "ref" and d[3][1] in ("shared", "Not", "fake"):
                inner = d[3][2]
                P = (d[0], d[1])
                r = self._lin_place(inner[0], list(inner[1:]) + projs[1:], P, depth + 1)
                if r is not None and self.valid_between(r, P, at):
                    return r
            if d is not None and d[1] != "call" and d[3][0] == "use" and not isinstance(d[3][1], dict):
                inner = d[3][1]
                P = (d[0], d[1])
                r = self._lin_place(inner[0], list(inner[1:]) + projs, P, depth + 1)
                if r is not None and self.valid_between(r, P, at):
                    return r
            return self._atom(n, projs)
        if is_param:
            return self._atom(n, projs)
        if projs in (["@Continue", ".0"], ["@Some", ".0"], ["@Ok", ".0"], ["@Some", ".0", ".0"]):
            r = self._lin_payload(n, projs, at, depth)
            if r is not None:
                return r
            return self._atom(n, projs)
        d = self._single_def(n)
        if d is None:
            return self._atom(n, projs)
        bb, si, _p, rv = d
        P = (bb, si if si != "call" else TERM)
        r = None
        if si == "call":
            r = self._lin_call(rv, projs, P, depth)
        else:
            k = rv[0]
            if k == "use" and not projs:
                r = self.lin_op(rv[1], P, depth + 1)
                self._note_ty(r, fn.locals[n][0])
            elif k == "use" and projs and not isinstance(rv[1], dict):
                r = self._lin_place(rv[1][0], list(rv[1][1:]) + projs, P, depth + 1)
            elif k == "cast" and not projs and rv[1] == "IntToInt":
                to, frm = rv[3], (rv[4] if len(rv) > 4 else None)
                if frm in INT_RANGE and to in INT_RANGE and INT_RANGE[frm][0] >= INT_RANGE[to][0] and INT_RANGE[frm][1] <= INT_RANGE[to][1]:
                    r = self.lin_op(rv[2], P, depth + 1)
                elif to in INT_RANGE:
                    c = self.lin_op(rv[2], P, depth + 1)
                    if c is not None and c.is_const() and INT_RANGE[to][0] <= c.k <= INT_RANGE[to][1]:
                        r = c
            elif k == "bin" and projs in ([], [".0"]):
                op = rv[1]
                checked = op.endswith("WithOverflow")
                if checked == (projs == [".0"]):
                    base = op.replace("WithOverflow", "").replace("Unchecked", "")
                    a = self.lin_op(rv[2], P, depth + 1)
                    b = self.lin_op(rv[3], P, depth + 1)
                    if len(rv) > 4:
                        self._note_ty(a, rv[4])
                        self._note_ty(b, rv[4])
                    if a is not None and b is not None:
                        if base == "Add":
                            r = a.add(b)
                        elif base == "Sub":
                            r = a.sub(b)
                        elif base == "Mul" and (a.is_const() or b.is_const()):
                            r = b.scale(a.k) if a.is_const() else a.scale(b.k)
                        elif base == "Shl" and b.is_const() and 0 <= b.k < 128:
                            r = a.scale(2 ** b.k)
        if r is not None and self.valid_between(r, P, at):
            return r
        return self._atom(n, projs)

    # ---- payloads of Option/Result/ControlFlow produced by recognised calls
    def _payload_source(self, n, want, depth=0):
        """Follow local n (an Option/Result/ControlFlow) back through `?`/ok_or adaptors to its producing call.
        Returns CallSite or None."""
        if depth > 6:
            return None
        d = self._single_def(n)
        if d is None:
            return None
        if d[1] != "call":
            rv = d[3]
            if rv[0] == "use" and not isinstance(rv[1], dict) and len(rv[1]) == 1:
                return self._payload_source(rv[1][0], want, depth + 1)
            return None
        cs = d[3]
        if cs.short == "Try::branch" or re.search(r"^(Option::ok_or|Option::ok_or_else|Result::ok|Result::map_err)$", cs.short):
            a = cs.args[0]
            if isinstance(a, dict) or len(a) != 1:
                return None
            return self._payload_source(a[0], want, depth + 1)
        return cs

    def _lin_payload(self, n, projs, at, depth):
        cs = self._payload_source(n, projs[0])
        if cs is None:
            return None
        P = (cs.bb, TERM)
        nm = cs.callee or ""
        m = re.search(r"::(checked_add|checked_sub|checked_mul)$", nm)
        if m and len(cs.args) == 2 and re.search(r"num::<impl (u8|u16|u32|u64|u128|usize)>", nm):
            a = self.lin_op(cs.args[0], P, depth + 1)
            b = self.lin_op(cs.args[1], P, depth + 1)
            if a is None or b is None:
                return None
            op = m.group(1)
            r = None
            if op == "checked_add":
                r = a.add(b)
            elif op == "checked_sub":
                r = a.sub(b)
            elif op == "checked_mul" and (a.is_const() or b.is_const()):
                r = b.scale(a.k) if a.is_const() else a.scale(b.k)
            if r is not None and self.valid_between(r, P, at):
                return r
            return None
        if re.search(r"iter::Iterator::next$", nm) and projs[0] == "@Some":
            g = cs.gargs or ""
            is_range = re.search(r"^\[(std::iter::Rev<)?std::ops::Range<usize>>?\]$", g) is not None and projs == ["@Some", ".0"]
            is_enum = re.search(r"^\[std::iter::Enumerate<", g) is not None and projs == ["@Some", ".0", ".0"]
            if not (is_range or is_enum):
                return None
            b = self._range_loop_bounds(cs, enumerate_=is_enum)
            if b is not None:
                lo, hi, PR = b
                atom = self._atom(n, projs, ty="usize")
                a = list(atom.c)[0]
                self.alias[a] = "i"             # a loop index: rendered independently of how the loop is written
                if a not in self.extra_facts:
                    self.extra_facts[a] = True
                    here = (cs.bb, TERM)
                    if lo.is_const() and hi.is_const():
                        self.extra_bounds[a] = (lo.k, hi.k)
                    else:
                        # relational: lo <= v <= hi, bounds evaluated where the range was built
                        if self.valid_between(lo, PR, here) and self.valid_between(hi, PR, here):
                            self.assumed.append((atom.sub(lo), here))
                            self.assumed.append((hi.sub(atom), here))
                            self._facts_cache = {}
                return atom
        return None

    def _range_loop_bounds(self, cs, enumerate_=False):
        """`Range<usize>::next(&mut it)` where `it` is a local initialised once from `a..b` and only ever touched by
        `next` -> every yielded value v satisfies a <= v <= b-1.  With enumerate_: `it` is initialised from
        `<slice>.iter()/iter_mut().enumerate()` -> every yielded index i satisfies 0 <= i <= len(slice)-1."""
        fn = self.fn
        # resolve the iterator local through reborrows
        op = cs.args[0]
        seen = 0
        while seen < 6:
            seen += 1
            if isinstance(op, dict) or len(op) != 1:
                return None
            d = self._single_def(op[0])
            if d is None or d[1] == "call" or d[3][0] != "ref":
                return None
            pl = d[3][2]
            if len(pl) == 1:
                it = pl[0]
                break
            if len(pl) == 2 and pl[1] == "*":
                op = [pl[0]]
                continue
            return None
        else:
            return None
        whole = [d for d in fn.defs().get(it, []) if d[2] == ()]
        partial = [d for d in fn.defs().get(it, []) if d[2] != ()]
        if len(whole) != 1 or partial:
            return None
        # every &mut borrow of `it` must end in an Iterator::next call
        for bb, si, st in fn.statements():
            if st[0] == "=" and st[2][0] in ("ref", "rawptr") and st[2][2] and st[2][2][0] == it and st[2][1] not in ("shared", "Not", "fake"):
                if not self._only_feeds_next(st[1][0]):
                    return None
        # initial value: Range{start: a, end: b} (through into_iter / rev / moves)
        cur = whole[0]
        for _ in range(8):
            rv = cur[3]
            if cur[1] == "call":
                c2 = rv
                if c2.short in ("IntoIterator::into_iter", "Iterator::rev") and len(c2.args) == 1 and not isinstance(c2.args[0], dict):
                    cur = self._single_def(c2.args[0][0])
                    if cur is None:
                        return None
                    continue
                if enumerate_ and c2.short == "Iterator::enumerate" and len(c2.args) == 1 and not isinstance(c2.args[0], dict):
                    inner = self._single_def(c2.args[0][0])
                    if inner is None or inner[1] != "call" or not re.search(r"slice::<impl \[T\]>::(iter|iter_mut)$", inner[3].callee or ""):
                        return None
                    PR = (inner[0], TERM)
                    ln = self.slice_len(inner[3].args[0], PR)
                    if ln is None:
                        return None
                    return (Lin({}, 0), ln.add(Lin({}, -1)), PR)
                return None
            if rv[0] == "use" and not isinstance(rv[1], dict) and len(rv[1]) == 1:
                cur = self._single_def(rv[1][0])
                if cur is None:
                    return None
                continue
            if rv[0] == "agg" and rv[1] == "adt" and rv[2].endswith("ops::Range") and len(rv[4]) == 2 and not enumerate_:
                PR = (cur[0], cur[1])
                a, b = self.lin_op(rv[4][0], PR), self.lin_op(rv[4][1], PR)
                if a is None or b is None:
                    return None
                return (a, b.add(Lin({}, -1)), PR)
            return None
        return None

    def _only_feeds_next(self, ref_local, depth=0):
        if depth > 4:
            return False
        us = uses_of(self.fn, ref_local)
        if not us:
            return False
        for u in us:
            if u[0] == "call" and re.search(r"iter::Iterator::next$", u[2].callee or ""):
                continue
            if u[0] == "stmt" and u[3][2][0] in ("ref", "use") and len(u[3][1]) == 1:
                if not self._only_feeds_next(u[3][1][0], depth + 1):
                    return False
                continue
            return False
        return True

    # ---- slices
    def slice_len(self, op, at, depth=0):
        """Length (affine form) of the slice/array that reference operand `op` points to."""
        if isinstance(op, dict) or depth > 10:
            return None
        fn = self.fn
        n = op[0]
        projs = [p for p in op[1:] if p != "*"]
        ty = fn.locals[n][0]
        if not projs:
            m = re.match(r"^&(?:mut )?\[.*; (\d+)(?:_usize)?\]$", ty)
            if m:
                return Lin({}, int(m.group(1)))
            m = re.match(r"^&(?:mut )?\[.*; ([A-Z][A-Z0-9_]*)\]$", ty)
            if m:
                self.atom_ty[m.group(1)] = "usize"
                return Lin.atom(m.group(1))
        if projs:
            return None
        if 0 < n <= fn.arg_count:
            if re.match(r"^&\[[^;]*\]$", ty):
                a = "len(_%d)" % n
                self.atom_ty[a] = "usize"
                return Lin.atom(a)
            return None
        d = self._single_def(n)
        if d is None:
            return None
        P = (d[0], d[1] if d[1] != "call" else TERM)
        if d[1] == "call":
            cs = d[3]
            if re.search(r"ops::Index(Mut)?::index(_mut)?$", cs.callee or "") and len(cs.args) == 2:
                rg = self.range_of(cs.args[1], P)
                if rg is None:
                    return None
                kind, a, b = rg
                if kind == "Range":
                    return b.sub(a)
                if kind == "RangeTo":
                    return b
                base = self.slice_len(cs.args[0], P, depth + 1)
                if base is None:
                    return None
                if kind == "RangeFrom":
                    return base.sub(a)
                if kind == "RangeFull":
                    return base
                return None
            if re.match(r"^&\[[^;]*\]$", ty):
                # an immutable slice returned by a call (e.g. str::as_bytes): one opaque length
                a = "len(_%d)" % n
                self.atom_ty[a] = "usize"
                return Lin.atom(a)
            return None
        rv = d[3]
        if rv[0] in ("ref", "rawptr"):
            return self.slice_len(rv[2], P, depth + 1)
        if rv[0] == "use" and not isinstance(rv[1], dict):
            return self.slice_len(rv[1], P, depth + 1)
        if rv[0] == "cast" and not isinstance(rv[2], dict):
            return self.slice_len(rv[2], P, depth + 1)
        return None

    def slice_len_of_place(self, pl, at):
        """`Len(place)` rvalue: length of the array/slice *place* (not a reference)."""
        n = pl[0]
        projs = [p for p in pl[1:] if p != "*"]
        ty = self.fn.locals[n][0]
        if not projs:
            m = re.match(r"^&?(?:mut )?\[.*; (\d+)(?:_usize)?\]$", ty)
            if m:
                return Lin({}, int(m.group(1)))
            if "*" in pl[1:]:
                return self.slice_len([n], at)
        return None

    def range_of(self, op, at):
        """operand holding a Range / RangeTo / RangeFrom aggregate -> (kind, start Lin|None, end Lin|None)"""
        if isinstance(op, dict) or len(op) != 1:
            return None
        d = self._single_def(op[0])
        if d is None or d[1] == "call":
            return None
        rv = d[3]
        P = (d[0], d[1])
        if rv[0] != "agg" or rv[1] != "adt":
            return None
        kind = rv[2].split("::")[-1]
        names = rv[3][1:]
        vals = {}
        for nm, o in zip(names, rv[4]):
            vals[nm] = self.lin_op(o, P)
            if vals[nm] is None or not self.valid_between(vals[nm], P, at):
                return None
        if kind in ("Range", "RangeTo", "RangeFrom", "RangeFull"):
            return kind, vals.get("start"), vals.get("end")
        return None

    def _lin_call(self, cs, projs, P, depth):
        """Result of a call as an affine form (only for recognised pure callees)."""
        nm = cs.name or ""
        sh = cs.short
        if projs:
            return None
        if re.search(r"slice::<impl \[T\]>::len$", cs.callee or "") and len(cs.args) == 1:
            return self.slice_len(cs.args[0], P)
        if not self.inline:
            return None
        callee = self.prog.fns.get(cs.resolved) or self.prog.fns.get(cs.callee)
        if callee is None or len(callee.blocks) > 12 or callee.arg_count != len(cs.args):
            return None
        if any(callee.blocks[i]["t"][0] in ("switch", "call") for i in range(len(callee.blocks)) if not callee.blocks[i].get("cleanup")):
            return None
        sub = LinFn(callee, self.prog, inline=False)
        ret_bb = [i for i, b in enumerate(callee.blocks) if b["t"][0] == "ret"]
        if len(ret_bb) != 1:
            return None
        r = sub.lin_op([0], (ret_bb[0], TERM))
        if r is None:
            return None
        out = Lin({}, r.k)
        for a, c in r.c.items():
            m = re.match(r"_(\d+)(\*.*)?$", a)
            if not m or not (0 < int(m.group(1)) <= callee.arg_count):
                return None
            aop = cs.args[int(m.group(1)) - 1]
            if m.group(2):
                # callee reads memory below its reference parameter: same memory below the caller's argument
                if isinstance(aop, dict) or len(aop) != 1 or a not in sub.atom_place:
                    return None
                arg = self._atom(aop[0], ["*"] + list(sub.atom_place[a][2:]), ty=sub.atom_ty.get(a))
                if not self.valid_between(arg, P, P):
                    return None
            else:
                arg = self.lin_op(aop, P, depth + 1)
            if arg is None:
                return None
            out = out.add(arg.scale(c))
        return out

    # ------------------------------------------------------------------ facts
    def _cond_facts(self, op, truth, at, depth=0):
        """Facts (list of Lin meaning >= 0) implied by boolean operand `op` having value `truth` at `at`."""
        if isinstance(op, dict) or depth > 8:
            return []
        n = op[0]
        if len(op) > 1:
            return []
        d = self._single_def(n)
        if d is None:
            return []
        bb, si, _p, rv = d
        P = (bb, si if si != "call" else TERM)
        if si == "call":
            cs = rv
            m = re.search(r"(?:PartialOrd|PartialEq)::(lt|le|gt|ge|eq|ne)$", cs.callee or "")
            if m and len(cs.args) == 2:
                a = self._lin_deref(cs.args[0], P)
                b = self._lin_deref(cs.args[1], P)
                return self._rel(CMP_CALLS[m.group(1)], a, b, truth, P, at)
            return []
        k = rv[0]
        if k == "bin" and rv[1] in CMP:
            a = self.lin_op(rv[2], P)
            b = self.lin_op(rv[3], P)
            return self._rel(CMP[rv[1]], a, b, truth, P, at)
        if k == "un" and rv[1] == "Not":
            return self._cond_facts(rv[2], not truth, P, depth + 1) if self._op_stable(rv[2], P, at) else []
        if k == "use":
            return self._cond_facts(rv[1], truth, P, depth + 1) if self._op_stable(rv[1], P, at) else []
        return []

    def _op_stable(self, op, P, S):
        return isinstance(op, dict) or self.no_def_between(op[0], P, S)

    def _lin_deref(self, op, at):
        """operand is a reference to an integer: form of the referent."""
        if isinstance(op, dict):
            return self.lin_op(op, at)
        return self._lin_place(op[0], list(op[1:]) + ["*"], at, 0)

    def _rel(self, rel, a, b, truth, P, at):
        if a is None or b is None:
            return []
        if not truth:
            rel = NEG[rel]
        out = []
        if rel == "<":
            out = [b.sub(a).add(Lin({}, -1))]
        elif rel == "<=":
            out = [b.sub(a)]
        elif rel == ">":
            out = [a.sub(b).add(Lin({}, -1))]
        elif rel == ">=":
            out = [a.sub(b)]
        elif rel == "==":
            out = [a.sub(b), b.sub(a)]
        return [f for f in out if self.valid_between(f, P, at)]

    def facts_at(self, S):
        """All comparison facts (Lin >= 0) that hold whenever control reaches point S=(bb, idx)."""
        key = S
        if key in self._facts_cache:
            return self._facts_cache[key]
        fn = self.fn
        out = []
        for lin, P in self.assumed:
            if (P[0] == S[0] or fn.dominates(P[0], S[0])) and self.valid_between(lin, P, S):
                out.append(lin)
        for (g, _cond, allowed, labels) in fn.guards(S[0]):
            t = fn.blocks[g]["t"]
            op = t[1]
            at_g = (g, TERM)
            if t[4] == "bool":
                if allowed == frozenset([0]):
                    out += self._facts_valid(self._cond_facts(op, False, at_g), at_g, S)
                elif allowed == frozenset(["otherwise"]):
                    out += self._facts_valid(self._cond_facts(op, True, at_g), at_g, S)
                continue
            # match on Ord::cmp(a, b)
            if isinstance(op, dict) or len(op) != 1:
                continue
            d = self._single_def(op[0])
            if d is None or d[1] == "call" or d[3][0] != "discr":
                continue
            src = d[3][1]
            if isinstance(src, dict) or len(src) != 1:
                continue
            d2 = self._single_def(src[0])
            if d2 is None or d2[1] != "call":
                continue
            cs = d2[3]
            if not re.search(r"cmp::(Ord::cmp|PartialOrd::partial_cmp)$", cs.callee or "") or len(cs.args) != 2:
                continue
            if cs.callee.endswith("partial_cmp"):
                continue
            P = (d2[0], TERM)
            a = self._lin_deref(cs.args[0], P)
            b = self._lin_deref(cs.args[1], P)
            if a is None or b is None:
                continue
            vals = set()
            for l in allowed:
                if l == "otherwise":
                    vals = None
                    break
                vals.add(-1 if l in (255, -1) else l)
            if vals is None:
                # otherwise edge: all labels not explicitly listed
                listed = set(-1 if l in (255, -1) else l for l in labels if l != "otherwise")
                vals = {-1, 0, 1} - listed
                for l in allowed:
                    if l != "otherwise":
                        vals.add(-1 if l in (255, -1) else l)
            rels = {frozenset([-1]): "<", frozenset([1]): ">", frozenset([0]): "==",
                    frozenset([-1, 0]): "<=", frozenset([0, 1]): ">="}
            rel = rels.get(frozenset(vals))
            if rel:
                out += self._facts_valid(self._rel(rel, a, b, True, P, at_g), P, S)
        self._facts_cache[key] = out
        return out

    def _facts_valid(self, fs, P, S):
        return [f for f in fs if self.valid_between(f, P, S)]

    # ------------------------------------------------------------------ intervals
    def ty_range(self, atom):
        ty = self.atom_ty.get(atom)
        if ty in INT_RANGE:
            return INT_RANGE[ty]
        return (-INF, INF)

    def atom_bounds(self, atom, S, depth=0):
        lo, hi = self.ty_range(atom)
        if atom in self.extra_bounds:
            lo = max(lo, self.extra_bounds[atom][0])
            hi = min(hi, self.extra_bounds[atom][1])
        for F in self.facts_at(S):
            c = F.c.get(atom, 0)
            if c == 0:
                continue
            # F = c*atom + rest >= 0 ; bound `rest` from above with intervals of the other atoms (bounded recursion)
            rest_hi = F.k
            okf = True
            for a2, v in F.c.items():
                if a2 == atom:
                    continue
                if depth >= 3:
                    l2, h2 = self.ty_range(a2)
                    if a2 in self.extra_bounds:
                        l2, h2 = max(l2, self.extra_bounds[a2][0]), min(h2, self.extra_bounds[a2][1])
                else:
                    l2, h2 = self.atom_bounds(a2, S, depth + 3)
                x = h2 if v > 0 else l2
                if x in (INF, -INF):
                    okf = False
                    break
                rest_hi += v * x
            if not okf:
                continue
            if c < 0:       # -m*a + rest >= 0  ->  a <= rest_hi/m
                hi = min(hi, rest_hi // (-c))
            else:           # m*a + rest >= 0   ->  a >= -rest_hi/m
                lo = max(lo, -(rest_hi // c))
        # multiply-defined local: maximum over its definitions
        b = _base(atom)
        if b is not None and depth < 6:
            dhi = self._defs_ub(atom, b, depth)
            if dhi is not None:
                hi = min(hi, dhi)
        return lo, hi

    def _defs_ub(self, atom, b, depth):
        fn = self.fn
        rest = atom[len("_%d" % b):]
        if 0 < b <= fn.arg_count:
            return None
        ds = fn.defs().get(b, [])
        if len(ds) < 2 and not rest:
            return None
        if atom in self._ub_busy:
            return self._ub_busy[atom]      # assumed value during fixpoint (None = bottom)
        alts = []
        for (bb, si, proj, rv) in ds:
            if proj != ():
                return None
            if si == "call":
                return None
            P = (bb, si)
            if rest == "":
                alts.append((rv, P))
            else:
                m = re.match(r"^@(\w+)\.(\d+)$", rest)
                if not m or rv[0] != "agg" or rv[1] != "adt":
                    return None
                vname = rv[3][0]
                if vname != m.group(1):
                    continue
                alts.append((["use", rv[4][int(m.group(2))]], P))
        if not alts:
            return None

        def eval_all():
            best = -INF
            for rv, P in alts:
                L = self._rv_lin(rv, P)
                if L is None:
                    return INF
                u = self.ub(L, P, depth + 1, bottom_ok=True)
                if u is None:
                    continue
                best = max(best, u)
            return best

        self._ub_busy[atom] = None
        try:
            u = eval_all()
            if u == -INF:
                return None
            # verify it is a post-fixpoint
            self._ub_busy[atom] = u
            u2 = eval_all()
            if u2 > u:
                return None
            return u
        finally:
            del self._ub_busy[atom]

    def _rv_lin(self, rv, P):
        k = rv[0]
        if k == "use":
            return self.lin_op(rv[1], P)
        if k == "cast" and rv[1] == "IntToInt":
            to, frm = rv[3], (rv[4] if len(rv) > 4 else None)
            if frm in INT_RANGE and to in INT_RANGE and INT_RANGE[frm][0] >= INT_RANGE[to][0] and INT_RANGE[frm][1] <= INT_RANGE[to][1]:
                return self.lin_op(rv[2], P)
        return None

    def ub(self, L, S, depth=0, bottom_ok=False):
        """Upper bound of L at S (INF if unknown). With bottom_ok, None means 'bottom' (only cyclic alternatives).
        Besides the plain interval evaluation, L <= L + F for every dominating fact F >= 0, so the interval bound of
        L + F is a bound of L as well (one fact at a time; e.g. `d - (p - t)` with the fact `p - t >= 0` is <= ub(d))."""
        best = self._ub_interval(L, S, depth, bottom_ok)
        if best is None or depth > 0 or self._ub_busy or len(L.c) < 2:
            return best
        for F in self.facts_at(S):
            if not (set(F.c) & set(L.c)):
                continue
            u = self._ub_interval(L.add(F), S, depth + 1, False)
            if u is not None and u < best:
                best = u
        return best

    def _ub_interval(self, L, S, depth=0, bottom_ok=False):
        tot = L.k
        for a, c in L.c.items():
            if a in self._ub_busy:
                v = self._ub_busy[a]
                if v is None:
                    if c > 0:
                        if bottom_ok:
                            return None
                        return INF
                    lo = self.ty_range(a)[0]
                    if lo == -INF:
                        return INF
                    tot += c * lo
                    continue
                lo, hi = self.ty_range(a)[0], v
            else:
                lo, hi = self.atom_bounds(a, S, depth)
            x = hi if c > 0 else lo
            if x in (INF, -INF):
                return INF
            tot += c * x
        return tot

    def lb(self, L, S, depth=0):
        """Lower bound of L at S: interval evaluation of L, or of L - F for one dominating fact F >= 0."""
        best = self._lb_interval(L, S, depth)
        if depth > 0 or self._ub_busy or len(L.c) < 2:
            return best
        for F in self.facts_at(S):
            if not (set(F.c) & set(L.c)):
                continue
            l = self._lb_interval(L.sub(F), S, depth + 1)
            if l > best:
                best = l
        return best

    def _lb_interval(self, L, S, depth=0):
        tot = L.k
        for a, c in L.c.items():
            lo, hi = self.atom_bounds(a, S, depth)
            x = lo if c > 0 else hi
            if x in (INF, -INF):
                return -INF
            tot += c * x
        return tot

    def nonneg(self, L, S):
        """(ok, witness) — is L >= 0 implied at S by intervals or by one dominating fact?"""
        if self.lb(L, S) >= 0:
            return True, "interval"
        for F in self.facts_at(S):
            D = L.sub(F)
            if self.lb(D, S) >= 0:
                return True, "fact %s >= 0" % self.render(F)
        return False, "facts: %s" % [self.render(F) + ">=0" for F in self.facts_at(S)][:8]

    # ------------------------------------------------------------------ site enumeration
    def sub_sites(self):
        """Raw subtraction statements: (bb, idx, a_op, b_op, ty, checked)."""
        out = []
        for bb, si, s in self.fn.statements():
            if self.fn.blocks[bb].get("cleanup"):
                continue
            if s[0] == "=" and s[2][0] == "bin" and s[2][1] in ("Sub", "SubWithOverflow", "SubUnchecked"):
                out.append((bb, si, s[2][2], s[2][3], s[2][4] if len(s[2]) > 4 else "", s))
        return out

    def bin_sites(self, ops):
        out = []
        for bb, si, s in self.fn.statements():
            if self.fn.blocks[bb].get("cleanup"):
                continue
            if s[0] == "=" and s[2][0] == "bin" and s[2][1].replace("WithOverflow", "") in ops:
                out.append((bb, si, s[2][2], s[2][3], s[2][4] if len(s[2]) > 4 else "", s))
        return out


def in_debug_assert(fn, bb_or_stmt):
    mac = bb_or_stmt if isinstance(bb_or_stmt, list) else fn.blocks[bb_or_stmt].get("mac", [])
    return any(m.startswith("debug_assert") for m in (mac or []))


def uses_of(fn, local):
    """Where is `local` read? list of ('stmt', bb, idx, stmt) / ('call', bb, CallSite, argidx) / ('term', bb, t)."""
    out = []

    def mentions(op):
        return isinstance(op, list) and op and op[0] == local

    for bb, si, s in fn.statements():
        if s[0] != "=":
            continue
        rv = s[2]
        ops = []
        k = rv[0]
        if k in ("use", "discr", "len"):
            ops = [rv[1]]
        elif k in ("ref", "rawptr"):
            ops = [rv[2]]
        elif k == "bin":
            ops = [rv[2], rv[3]]
        elif k in ("un", "cast"):
            ops = [rv[2]]
        elif k == "agg":
            ops = list(rv[4])
        elif k == "repeat":
            ops = [rv[1]]
        if any(mentions(o) for o in ops):
            out.append(("stmt", bb, si, s))
    for cs in fn.calls:
        for i, a in enumerate(cs.args):
            if mentions(a):
                out.append(("call", cs.bb, cs, i))
    for i, b in enumerate(fn.blocks):
        t = b["t"]
        if t[0] in ("switch", "assert") and mentions(t[1]):
            out.append(("term", i, t))
    return out


def consumed_by_try(fn, cs, via=r"(Option::ok_or|Option::ok_or_else|Result::map_err|Result::ok)$", max_hops=4):
    """Does the result of call `cs` flow (through `via` adaptors and plain moves only) into a `?` (Try::branch)?
    Returns (ok, chain)."""
    chain = [cs.short]
    cur = cs.dest
    for _ in range(max_hops * 3):
        if len(cur) != 1:
            return False, chain
        us = uses_of(fn, cur[0])
        if len(us) != 1:
            return False, chain + ["%d uses" % len(us)]
        u = us[0]
        if u[0] == "stmt" and u[3][2][0] == "use":
            cur = u[3][1]
            continue
        if u[0] == "call":
            c2, idx = u[2], u[3]
            if c2.short == "Try::branch":
                return True, chain + ["?"]
            if idx == 0 and re.search(via, c2.short):
                chain.append(c2.short)
                cur = c2.dest
                continue
            return False, chain + [c2.short]
        return False, chain + [u[0]]
    return False, chain


# ---------------------------------------------------------------------- panic-site inventory (A8 + A9-lite)

NOT_PANICKING = re.compile(r"(unwrap_or|unwrap_or_default|unwrap_or_else|checked_pow|wrapping_pow|saturating_pow|overflowing_pow)$")
TYPE_OF_IMPL = re.compile(r"num::<impl (u8|u16|u32|u64|u128|usize|i8|i16|i32|i64|i128|isize)>::")


def _max_pow10(ty):
    lo, hi = INT_RANGE[ty]
    e = 0
    while 10 ** (e + 1) <= hi:
        e += 1
    return e


def inventory(L, include_expansion=False):
    """Classify every potential panic site of L.fn and try to discharge it with affine facts.
    Returns list of dict(kind, key, ok, msg, bb, line). `key` is a stable rendering (no line numbers)."""
    from . import analyses as A
    fn = L.fn
    out = []

    def rec(kind, key, ok, msg, bb, line):
        out.append({"kind": kind, "key": key, "ok": ok, "msg": msg, "bb": bb, "line": line})

    # pre-pass: integer logarithms are monotone — bound their results from the argument's interval
    for cs in fn.calls:
        m = re.search(r"num::<impl (u8|u16|u32|u64|u128|usize)>::ilog10$", cs.callee or "")
        if m and len(cs.dest) == 1 and len(cs.args) == 1:
            x = L.lin_op(cs.args[0], (cs.bb, TERM))
            if x is None:
                continue
            lo, hi = L.lb(x, (cs.bb, TERM)), L.ub(x, (cs.bb, TERM))
            if hi == INF:
                hi = INT_RANGE[m.group(1)][1]
            if lo >= 1:
                a = "_%d" % cs.dest[0]
                L.atom_ty[a] = "u32"
                L.extra_bounds[a] = (len(str(int(lo))) - 1, len(str(int(hi))) - 1)

    for s in A.panic_sites(fn, include_expansion=include_expansion):
        bb, kind, line = s["bb"], s["kind"], s["line"]
        if in_debug_assert(fn, bb) and not include_expansion:
            continue
        t = fn.blocks[bb]["t"]
        if kind.startswith("assert:"):
            what = kind.split(":", 1)[1]
            cond = t[1]
            S = (bb, TERM)
            if what == "Overflow":
                src = None
                for si, st in enumerate(fn.blocks[bb]["s"]):
                    if st[0] == "=" and st[1] == [cond[0]] and st[2][0] == "bin":
                        src = (si, st)
                if src is None:
                    rec("overflow", "overflow:?", False, "overflow assert whose operation is not in the same block", bb, line)
                    continue
                si, st = src
                op = st[2][1]
                a, b = L.lin_op(st[2][2], (bb, si)), L.lin_op(st[2][3], (bb, si))
                ty = st[2][4] if len(st[2]) > 4 else ""
                if op in ("Lt", "Le") and a is not None and b is not None and a.is_const() and b.is_const():
                    okc = a.k < b.k if op == "Lt" else a.k <= b.k
                    rec("overflow", "shift:%s<%s" % (a.k, b.k), okc, "constant shift amount %s within %s bits" % (a.k, b.k), bb, line)
                    continue
                if a is None or b is None or ty not in INT_RANGE:
                    rec("overflow", "overflow:%s:?" % op, False, "%s on operands that are not affine" % op, bb, line)
                    continue
                base = op.replace("WithOverflow", "")
                if base == "Sub":
                    d = a.sub(b)
                    ok, why = L.nonneg(d, (bb, si))
                    if INT_RANGE[ty][0] < 0:
                        ok = ok and L.ub(d, (bb, si)) <= INT_RANGE[ty][1]
                    rec("sub", "sub:%s" % L.render(d), ok, "(%s) - (%s) >= 0 %s" % (L.render(a), L.render(b), "by " + why if ok else "NOT implied; " + why), bb, line)
                elif base == "Add":
                    d = a.add(b)
                    u = L.ub(d, (bb, si))
                    ok = u <= INT_RANGE[ty][1] and (INT_RANGE[ty][0] == 0 or L.lb(d, (bb, si)) >= INT_RANGE[ty][0])
                    rec("add", "add:%s" % L.render(d), ok, "%s <= %s (%s::MAX = %s)" % (L.render(d), u, ty, INT_RANGE[ty][1]), bb, line)
                elif base == "Mul" and (a.is_const() or b.is_const()):
                    d = b.scale(a.k) if a.is_const() else a.scale(b.k)
                    u = L.ub(d, (bb, si))
                    ok = u <= INT_RANGE[ty][1] and (INT_RANGE[ty][0] == 0 or L.lb(d, (bb, si)) >= INT_RANGE[ty][0])
                    rec("mul", "mul:%s" % L.render(d), ok, "%s <= %s (%s::MAX)" % (L.render(d), u, ty), bb, line)
                elif base == "Mul":
                    ua, ub_ = L.ub(a, (bb, si)), L.ub(b, (bb, si))
                    ok = ua != INF and ub_ != INF and ua * ub_ <= INT_RANGE[ty][1] and INT_RANGE[ty][0] == 0
                    rec("mul", "mul:(%s)*(%s)" % (L.render(a), L.render(b)), ok, "(%s <= %s) * (%s <= %s) within %s" % (L.render(a), ua, L.render(b), ub_, ty), bb, line)
                else:
                    rec("overflow", "overflow:%s" % op, False, "unclassified overflow-checked %s" % op, bb, line)
            elif what == "BoundsCheck":
                d = L._single_def(cond[0]) if len(cond) == 1 else None
                ok, msg, key = False, "bounds check of unknown shape", "bounds:?"
                if d is not None and d[1] != "call" and d[3][0] == "bin" and d[3][1] == "Lt":
                    P = (d[0], d[1])
                    idx = L.lin_op(d[3][2], P)
                    ln = L.lin_op(d[3][3], P)
                    if ln is None and not isinstance(d[3][3], dict):
                        d2 = L._single_def(d[3][3][0])
                        if d2 is not None and d2[1] != "call" and d2[3][0] == "len":
                            ln = L.slice_len_of_place(d2[3][1], (d2[0], d2[1]))
                    if idx is not None and ln is not None:
                        need = ln.sub(idx).add(Lin({}, -1))
                        ok, why = L.nonneg(need, P)
                        key = "bounds:%s<%s" % (L.render(idx), L.render(ln))
                        msg = "index %s < %s %s" % (L.render(idx), L.render(ln), "by " + why if ok else "NOT implied; " + why)
                rec("bounds", key, ok, msg, bb, line)
            elif what in ("DivisionByZero", "RemainderByZero"):
                d = L._single_def(cond[0]) if len(cond) == 1 else None
                ok, msg, key = False, "division whose divisor is not recognised", "div:?"
                if d is not None and d[1] != "call" and d[3][0] == "bin" and d[3][1] == "Eq":
                    P = (d[0], d[1])
                    dv = d[3][2]
                    lv = L.lin_op(dv, P)
                    if lv is not None and L.lb(lv, P) >= 1:
                        ok, key, msg = True, "div:%s" % L.render(lv), "divisor %s >= 1" % L.render(lv)
                    elif not isinstance(dv, dict):
                        d2 = L._single_def(dv[0])
                        if d2 is not None and d2[1] == "call" and re.search(r"::pow$", d2[3].callee or "") and \
                                (L.const_int(d2[3].args[0]) or 0) >= 1 and TYPE_OF_IMPL.search(d2[3].callee or ""):
                            ok, key, msg = True, "div:pow(%s,..)" % L.const_int(d2[3].args[0]), "divisor is a power of a positive constant"
                        elif lv is not None:
                            key, msg = "div:%s" % L.render(lv), "divisor %s not shown non-zero" % L.render(lv)
                rec("div", key, ok, msg, bb, line)
            else:
                rec("assert", "assert:%s" % what, False, "unclassified assert %s" % what, bb, line)
            continue
        if kind.startswith("diverge:"):
            rec("diverge", kind, False, "diverging call %s outside debug assertions" % kind[8:], bb, line)
            continue
        cs = s.get("cs") or fn.call_in_block(bb)
        nm = cs.callee or ""
        if NOT_PANICKING.search(nm):
            continue
        S = (bb, TERM)
        if re.search(r"slice::<impl \[T\]>::copy_from_slice$", nm):
            a, b = L.slice_len(cs.args[0], S), L.slice_len(cs.args[1], S)
            ok = a is not None and b is not None and a == b
            rec("copy", "copy_from_slice:%s" % (L.render(a) if a is not None else "?"), ok,
                "copy_from_slice: destination length %s == source length %s" % (L.render(a) if a is not None else "?", L.render(b) if b is not None else "?"), bb, line)
            continue
        if re.search(r"ops::Index(Mut)?::index(_mut)?$", nm):
            rg = L.range_of(cs.args[1], S)
            ln = L.slice_len(cs.args[0], S)
            if rg is None:
                ix = L.lin_op(cs.args[1], S)
                if ix is not None and ln is not None:
                    need = ln.sub(ix).add(Lin({}, -1))
                    ok, why = L.nonneg(need, S)
                    rec("index", "index:%s<%s" % (L.render(ix), L.render(ln)), ok, "index %s < len %s %s" % (L.render(ix), L.render(ln), "by " + why if ok else "NOT implied; " + why), bb, line)
                else:
                    rec("index", "index:%s" % cs.rshort, False, "indexing %s with an index/range that is not affine" % cs.rshort, bb, line)
                continue
            k, a, b = rg
            parts, ok = [], True
            desc = "%s..%s" % (L.render(a) if a is not None else "", L.render(b) if b is not None else "")
            if ln is None:
                rec("index", "slice:%s" % desc, False, "length of the indexed slice is not affine", bb, line)
                continue
            if a is not None and b is not None:
                o1, w1 = L.nonneg(b.sub(a), S)
                ok = ok and o1
                parts.append("start<=end %s" % ("by " + w1 if o1 else "NOT implied"))
            hi = b if b is not None else a
            if hi is not None:
                o2, w2 = L.nonneg(ln.sub(hi), S)
                ok = ok and o2
                parts.append("%s<=len(%s) %s" % (L.render(hi), L.render(ln), "by " + w2 if o2 else "NOT implied; " + w2))
            rec("slice", "slice:[%s]of(%s)" % (desc, L.render(ln)), ok, "slice [%s] of length %s: %s" % (desc, L.render(ln), "; ".join(parts)), bb, line)
            continue
        if re.search(r"::ilog10$", nm):
            x = L.lin_op(cs.args[0], S)
            lo = L.lb(x, S) if x is not None else -INF
            rec("ilog", "ilog10:%s" % (L.render(x) if x is not None else "?"), lo >= 1,
                "ilog10(%s): argument >= %s (must be > 0)" % (L.render(x) if x is not None else "?", lo), bb, line)
            continue
        if re.search(r"::pow$", nm):
            m = TYPE_OF_IMPL.search(nm)
            base = L.const_int(cs.args[0])
            e = L.lin_op(cs.args[1], S)
            if m and base == 10 and e is not None:
                u = L.ub(e, S)
                lim = _max_pow10(m.group(1))
                rec("pow", "pow10:%s" % L.render(e), u <= lim, "10%s.pow(%s): exponent <= %s (limit %d)" % (m.group(1), L.render(e), u, lim), bb, line)
            else:
                rec("pow", "pow:%s" % cs.rshort, False, "pow with non-constant base or non-affine exponent (%s)" % cs.rshort, bb, line)
            continue
        if re.search(r"(Option|Result)::(unwrap|expect|unwrap_err|expect_err)$", cs.short):
            src = L._payload_source(cs.args[0][0], None) if not isinstance(cs.args[0], dict) and len(cs.args[0]) == 1 else None
            ok, msg = False, "%s on %s" % (cs.short, src.short if src is not None else "?")
            key = "%s:%s" % (cs.short.split("::")[1], src.short if src is not None else "?")
            if src is not None and src.short == "TryInto::try_into":
                m = re.match(r"^\[&(?:'\S+ )?\[(\w+)\], \[(\w+); (\d+)(?:_usize)?\]\]$", src.gargs or "")
                if m:
                    ln = L.slice_len(src.args[0], (src.bb, TERM))
                    if ln is not None and ln.is_const() and ln.k == int(m.group(3)):
                        ok, msg = True, "try_into::<[%s; %s]>() of a slice of statically known length %d cannot fail" % (m.group(2), m.group(3), ln.k)
                    key = "unwrap:slice-to-array[%s]" % m.group(3)
            rec("unwrap", key, ok, msg, bb, line)
            continue
        rec("call", "call:%s" % cs.rshort, False, "potentially panicking call %s" % cs.rshort, bb, line)
    return out


# ---------------------------------------------------------------------- normalised boolean paths (A10 helper)

def norm_paths(fn, split_ret=False):
    """Acyclic paths of `fn` (analyses.decision_table) with the purely syntactic part of guard structure removed:
      * a branch on a boolean LOCAL that only carries the outcome of an earlier test on this path (`let c = matches!(..)`,
        `a && b` bound to a name, merged `||` guards) shows up as a constant condition: consistent ones are dropped,
        contradictory ones make the path infeasible;
      * boolean conditions are given as (expr, truth); other switches as (expr, label);
      * with split_ret, a path RETURNING a non-constant boolean expression e is split into (.. , e=true) -> true and
        (.., e=false) -> false, so `cond_tail` and `if !cond_tail { return false } true` look the same.
    Yields dict(conds=[(E, truth|label, is_bool)], ret=E|None, blocks=[..])."""
    from . import analyses as A
    out = []
    for p in A.decision_table(fn):
        if p["diverges"] or not A.feasible(p):
            continue
        conds = []
        dead = False
        for c, l, t in p["conds"]:
            is_bool = (t == "bool")
            truth = ((l != 0) if not isinstance(l, tuple) else (0 in l[1])) if is_bool else l
            neg = False
            e = c
            while e.k == "un" and e.a[0] == "Not":
                e = e.a[1]
                neg = not neg
            if is_bool and e.k == "const" and e.a[0] in ("true", "false"):
                val = (e.a[0] == "true") != neg
                if val != truth:
                    dead = True
                    break
                continue
            conds.append((e, (truth != neg) if is_bool else truth, is_bool))
        if dead:
            continue
        r = p["ret"]
        if split_ret and r is not None and not (r.k == "const" and r.a[0] in ("true", "false")):
            neg = False
            e = r
            while e.k == "un" and e.a[0] == "Not":
                e = e.a[1]
                neg = not neg
            for v in (True, False):
                out.append({"conds": conds + [(e, v != neg, True)], "ret": "true" if v else "false", "blocks": p["blocks"]})
            continue
        out.append({"conds": conds, "ret": r, "blocks": p["blocks"]})
    return out
