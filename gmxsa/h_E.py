"""Helpers of rule group E (C26 C27 C28 C34 C35 C41 C43).

LinFn — affine forms over MIR locals (Karr-style, A11b) + dominating comparison facts (A9-lite):

  * an operand is expanded through single-definition temporaries, widening casts, `+`, `-`, `<< const`,
    `* const`, `.0` of an overflow-checked op, successful `checked_add/checked_sub`, and calls to small
    straight-line local functions (inlined) into   k + sum(c_i * atom_i)   where atoms are MIR places
    (parameters, multiply-defined locals, fields read through shared references);
  * every expansion / every fact is only used at a site if none of its atoms can be redefined between the
    point where it was read and the site (CFG region check), so mutable locals (`exp -= d`) are handled
    without versioning mistakes;
  * facts come from the branch edges that dominate a site (`<,<=,>,>=,==` on integers, `Ord::cmp` matches,
    `PartialOrd::{lt,le,gt,ge}`), each as a form F with the meaning  F >= 0;
  * `nonneg(L, site)`  holds if the interval lower bound of L is >= 0, or of  L - F  for one dominating fact F
    (a purely syntactic implication check — no solver);
  * `ub(L, site)` interval upper bound; the bound of a multiply-defined local is the maximum over its
    definitions, each evaluated with the facts of its own site (least fixpoint for self-referential updates).

Nothing here depends on local numbering, statement order of independent statements or source text.
"""
import re

from .model import short_path

TERM = 10 ** 6
INT_RANGE = {
    "u8": (0, 2 ** 8 - 1), "u16": (0, 2 ** 16 - 1), "u32": (0, 2 ** 32 - 1), "u64": (0, 2 ** 64 - 1),
    "u128": (0, 2 ** 128 - 1), "usize": (0, 2 ** 64 - 1),
    "i8": (-2 ** 7, 2 ** 7 - 1), "i16": (-2 ** 15, 2 ** 15 - 1), "i32": (-2 ** 31, 2 ** 31 - 1),
    "i64": (-2 ** 63, 2 ** 63 - 1), "i128": (-2 ** 127, 2 ** 127 - 1), "isize": (-2 ** 63, 2 ** 63 - 1),
}
INF = float("inf")
CMP = {"Lt": "<", "Le": "<=", "Gt": ">", "Ge": ">=", "Eq": "==", "Ne": "!="}
NEG = {"<": ">=", "<=": ">", ">": "<=", ">=": "<", "==": "!=", "!=": "=="}
CMP_CALLS = {"lt": "<", "le": "<=", "gt": ">", "ge": ">=", "eq": "==", "ne": "!="}


class Lin:
    """k + sum c[a]*a"""
    __slots__ = ("c", "k")

    def __init__(self, c=None, k=0):
        self.c = {a: v for a, v in (c or {}).items() if v != 0}
        self.k = k

    @staticmethod
    def atom(a):
        return Lin({a: 1}, 0)

    def add(self, o, s=1):
        c = dict(self.c)
        for a, v in o.c.items():
            c[a] = c.get(a, 0) + s * v
        return Lin(c, self.k + s * o.k)

    def sub(self, o):
        return self.add(o, -1)

    def scale(self, m):
        return Lin({a: v * m for a, v in self.c.items()}, self.k * m)

    def is_const(self):
        return not self.c

    def atoms(self):
        return list(self.c)

    def key(self):
        return (tuple(sorted(self.c.items())), self.k)

    def __eq__(self, o):
        return isinstance(o, Lin) and self.key() == o.key()

    def __hash__(self):
        return hash(self.key())

    def render(self, namer=lambda a: a):
        parts = []
        for a, v in sorted(self.c.items(), key=lambda kv: (-kv[1], namer(kv[0]))):
            n = namer(a)
            if v == 1:
                parts.append("+" + n)
            elif v == -1:
                parts.append("-" + n)
            else:
                parts.append("%+d*%s" % (v, n))
        if self.k or not parts:
            parts.append("%+d" % self.k)
        s = "".join(parts)
        return s[1:] if s.startswith("+") else s

    __repr__ = __str__ = lambda self: self.render()


def _base(atom):
    """local index an atom is rooted in."""
    m = re.match(r"_(\d+)", atom)
    return int(m.group(1)) if m else None


class LinFn:
    def __init__(self, fn, prog=None, inline=True):
        self.fn = fn
        self.prog = prog or fn.prog
        self.inline = inline
        self._alldefs = None
        self._reaching = {}
        self._ub_busy = {}
        self.atom_ty = {}
        self._facts_cache = {}

    # ------------------------------------------------------------------ CFG helpers
    def all_defs(self):
        """local -> [(bb, idx)] for every write (whole or partial) or &mut borrow of the local."""
        if self._alldefs is None:
            d = {}
            fn = self.fn
            for bb, si, s in fn.statements():
                if s[0] in ("=", "setdiscr"):
                    pl = s[1]
                    if "*" not in pl[1:]:
                        d.setdefault(pl[0], []).append((bb, si))
                    if s[0] == "=" and s[2][0] in ("ref", "rawptr") and s[2][1] not in ("shared", "Not", "const", "fake"):
                        p2 = s[2][2]
                        if "*" not in p2[1:]:
                            d.setdefault(p2[0], []).append((bb, si))
            for cs in fn.calls:
                pl = cs.dest
                if "*" not in pl[1:]:
                    d.setdefault(pl[0], []).append((cs.bb, TERM))
            self._alldefs = d
        return self._alldefs

    def reaching(self, bb):
        """blocks from which bb is reachable (inclusive)."""
        if bb not in self._reaching:
            seen = {bb}
            st = [bb]
            while st:
                b = st.pop()
                for p, _ in self.fn.pred(b):
                    if p not in seen:
                        seen.add(p)
                        st.append(p)
            self._reaching[bb] = seen
        return self._reaching[bb]

    def in_cycle(self, bb):
        for t, _ in self.fn.succ(bb):
            if bb in self.fn.reachable_from(t):
                return True
        return False

    def no_def_between(self, local, P, S):
        """No write to `local` on any path from point P (exclusive) to point S (exclusive)."""
        defs = self.all_defs().get(local, [])
        if not defs:
            return True
        (pb, pi), (sb, si) = P, S
        if pb == sb and pi <= si and not self.in_cycle(pb):
            return not any(b == pb and pi < i < si for b, i in defs)
        fwd = set()
        for t, _ in self.fn.succ(pb):
            fwd |= self.fn.reachable_from(t)
        region = fwd & self.reaching(sb)
        for b, i in defs:
            if b == pb and b not in region:
                if i > pi and sb in fwd:
                    return False
                continue
            if b in region:
                if b == sb and b != pb and not self.in_cycle(b):
                    if i < si:
                        return False
                    continue
                if b == pb and b != sb and not self.in_cycle(b):
                    if i > pi:
                        return False
                    continue
                return False
        return True

    def valid_between(self, lin, P, S):
        for a in lin.atoms():
            b = _base(a)
            if b is None:
                continue
            if 0 < b <= self.fn.arg_count and not self.all_defs().get(b):
                continue
            if not self.no_def_between(b, P, S):
                return False
        return True

    # ------------------------------------------------------------------ naming
    def name(self, atom):
        b = _base(atom)
        if b is None:
            return atom
        nm = self.fn.locals[b][1]
        rest = atom[len("_%d" % b):]
        if nm:
            return nm + rest.replace("*", "")
        # unnamed temporary: describe by its (single) definition if possible
        ds = [d for d in self.fn.defs().get(b, []) if d[2] == ()]
        if len(ds) == 1 and ds[0][1] == "call":
            return ds[0][3].short.split("::")[-1] + "()" + rest
        return "tmp" + rest

    def render(self, lin):
        return lin.render(self.name)

    def ty_of_place(self, n, projs):
        if not projs:
            return self.fn.locals[n][0]
        return None

    # ------------------------------------------------------------------ forms
    def const_int(self, op):
        if isinstance(op, dict) and "int" in op:
            try:
                return int(op["int"])
            except ValueError:
                return None
        return None

    def lin_op(self, op, at, depth=0):
        """Affine form of operand `op` read at point `at`; None if it is not an integer place/const."""
        if isinstance(op, dict):
            v = self.const_int(op)
            return Lin({}, v) if v is not None else None
        n = op[0]
        projs = list(op[1:])
        return self._lin_place(n, projs, at, depth)

    def _atom(self, n, projs, ty=None):
        a = "_%d%s" % (n, "".join(projs))
        if ty is None:
            ty = self.ty_of_place(n, projs)
        if ty is not None and a not in self.atom_ty:
            self.atom_ty[a] = ty.lstrip("&").strip()
        return Lin.atom(a)

    def _note_ty(self, r, ty):
        """a temporary of integer type `ty` is a plain copy of a lone atom: the atom has that type."""
        if r is not None and r.k == 0 and len(r.c) == 1 and ty in INT_RANGE:
            (a, c), = r.c.items()
            if c == 1 and a not in self.atom_ty:
                self.atom_ty[a] = ty

    def _single_def(self, n):
        ds = self.fn.defs().get(n, [])
        whole = [d for d in ds if d[2] == ()]
        if len(ds) == 1 and len(whole) == 1:
            return whole[0]
        return None

    def _lin_place(self, n, projs, at, depth):
        fn = self.fn
        if depth > 60:
            return self._atom(n, projs)
        is_param = 0 < n <= fn.arg_count
        # deref of a shared reference created from a place: read the place
        if projs and projs[0] == "*" and not is_param:
            d = self._single_def(n)
            if d is not None and d[1] != "call" and d[3][0] == "ref" and d[3][1] in ("shared", "Not", "fake"):
                inner = d[3][2]
                P = (d[0], d[1])
                r = self._lin_place(inner[0], list(inner[1:]) + projs[1:], P, depth + 1)
                if r is not None and self.valid_between(r, P, at):
                    return r
            if d is not None and d[1] != "call" and d[3][0] == "use" and not isinstance(d[3][1], dict):
                inner = d[3][1]
                P = (d[0], d[1])
                r = self._lin_place(inner[0], list(inner[1:]) + projs, P, depth + 1)
                if r is not None and self.valid_between(r, P, at):
                    return r
            return self._atom(n, projs)
        if is_param:
            return self._atom(n, projs)
        d = self._single_def(n)
        if d is None:
            return self._atom(n, projs)
        bb, si, _p, rv = d
        P = (bb, si if si != "call" else TERM)
        r = None
        if si == "call":
            r = self._lin_call(rv, projs, P, depth)
        else:
            k = rv[0]
            if k == "use" and not projs:
                r = self.lin_op(rv[1], P, depth + 1)
                self._note_ty(r, fn.locals[n][0])
            elif k == "use" and projs and not isinstance(rv[1], dict):
                r = self._lin_place(rv[1][0], list(rv[1][1:]) + projs, P, depth + 1)
            elif k == "cast" and not projs and rv[1] == "IntToInt":
                to, frm = rv[3], (rv[4] if len(rv) > 4 else None)
                if frm in INT_RANGE and to in INT_RANGE and INT_RANGE[frm][0] >= INT_RANGE[to][0] and INT_RANGE[frm][1] <= INT_RANGE[to][1]:
                    r = self.lin_op(rv[2], P, depth + 1)
            elif k == "bin" and projs in ([], [".0"]):
                op = rv[1]
                checked = op.endswith("WithOverflow")
                if checked == (projs == [".0"]):
                    base = op.replace("WithOverflow", "").replace("Unchecked", "")
                    a = self.lin_op(rv[2], P, depth + 1)
                    b = self.lin_op(rv[3], P, depth + 1)
                    if a is not None and b is not None:
                        if base == "Add":
                            r = a.add(b)
                        elif base == "Sub":
                            r = a.sub(b)
                        elif base == "Mul" and (a.is_const() or b.is_const()):
                            r = b.scale(a.k) if a.is_const() else a.scale(b.k)
                        elif base == "Shl" and b.is_const() and 0 <= b.k < 128:
                            r = a.scale(2 ** b.k)
        if r is not None and self.valid_between(r, P, at):
            return r
        return self._atom(n, projs)

    def _lin_call(self, cs, projs, P, depth):
        """Result of a call as an affine form (only for recognised pure callees)."""
        nm = cs.name or ""
        sh = cs.short
        if projs:
            return None
        if not self.inline:
            return None
        callee = self.prog.fns.get(cs.resolved) or self.prog.fns.get(cs.callee)
        if callee is None or len(callee.blocks) > 12 or callee.arg_count != len(cs.args):
            return None
        if any(callee.blocks[i]["t"][0] in ("switch", "call") for i in range(len(callee.blocks)) if not callee.blocks[i].get("cleanup")):
            return None
        sub = LinFn(callee, self.prog, inline=False)
        ret_bb = [i for i, b in enumerate(callee.blocks) if b["t"][0] == "ret"]
        if len(ret_bb) != 1:
            return None
        r = sub.lin_op([0], (ret_bb[0], TERM))
        if r is None:
            return None
        out = Lin({}, r.k)
        for a, c in r.c.items():
            m = re.match(r"_(\d+)$", a)
            if not m or not (0 < int(m.group(1)) <= callee.arg_count):
                return None
            arg = self.lin_op(cs.args[int(m.group(1)) - 1], P, depth + 1)
            if arg is None:
                return None
            out = out.add(arg.scale(c))
        return out

    # ------------------------------------------------------------------ facts
    def _cond_facts(self, op, truth, at, depth=0):
        """Facts (list of Lin meaning >= 0) implied by boolean operand `op` having value `truth` at `at`."""
        if isinstance(op, dict) or depth > 8:
            return []
        n = op[0]
        if len(op) > 1:
            return []
        d = self._single_def(n)
        if d is None:
            return []
        bb, si, _p, rv = d
        P = (bb, si if si != "call" else TERM)
        if si == "call":
            cs = rv
            m = re.search(r"(?:PartialOrd|PartialEq)::(lt|le|gt|ge|eq|ne)$", cs.callee or "")
            if m and len(cs.args) == 2:
                a = self._lin_deref(cs.args[0], P)
                b = self._lin_deref(cs.args[1], P)
                return self._rel(CMP_CALLS[m.group(1)], a, b, truth, P, at)
            return []
        k = rv[0]
        if k == "bin" and rv[1] in CMP:
            a = self.lin_op(rv[2], P)
            b = self.lin_op(rv[3], P)
            return self._rel(CMP[rv[1]], a, b, truth, P, at)
        if k == "un" and rv[1] == "Not":
            return self._cond_facts(rv[2], not truth, P, depth + 1) if self._op_stable(rv[2], P, at) else []
        if k == "use":
            return self._cond_facts(rv[1], truth, P, depth + 1) if self._op_stable(rv[1], P, at) else []
        return []

    def _op_stable(self, op, P, S):
        return isinstance(op, dict) or self.no_def_between(op[0], P, S)

    def _lin_deref(self, op, at):
        """operand is a reference to an integer: form of the referent."""
        if isinstance(op, dict):
            return self.lin_op(op, at)
        return self._lin_place(op[0], list(op[1:]) + ["*"], at, 0)

    def _rel(self, rel, a, b, truth, P, at):
        if a is None or b is None:
            return []
        if not truth:
            rel = NEG[rel]
        out = []
        if rel == "<":
            out = [b.sub(a).add(Lin({}, -1))]
        elif rel == "<=":
            out = [b.sub(a)]
        elif rel == ">":
            out = [a.sub(b).add(Lin({}, -1))]
        elif rel == ">=":
            out = [a.sub(b)]
        elif rel == "==":
            out = [a.sub(b), b.sub(a)]
        return [f for f in out if self.valid_between(f, P, at)]

    def facts_at(self, S):
        """All comparison facts (Lin >= 0) that hold whenever control reaches point S=(bb, idx)."""
        key = S
        if key in self._facts_cache:
            return self._facts_cache[key]
        fn = self.fn
        out = []
        for (g, _cond, allowed, labels) in fn.guards(S[0]):
            t = fn.blocks[g]["t"]
            op = t[1]
            at_g = (g, TERM)
            if t[4] == "bool":
                if allowed == frozenset([0]):
                    out += self._facts_valid(self._cond_facts(op, False, at_g), at_g, S)
                elif allowed == frozenset(["otherwise"]):
                    out += self._facts_valid(self._cond_facts(op, True, at_g), at_g, S)
                continue
            # match on Ord::cmp(a, b)
            if isinstance(op, dict) or len(op) != 1:
                continue
            d = self._single_def(op[0])
            if d is None or d[1] == "call" or d[3][0] != "discr":
                continue
            src = d[3][1]
            if isinstance(src, dict) or len(src) != 1:
                continue
            d2 = self._single_def(src[0])
            if d2 is None or d2[1] != "call":
                continue
            cs = d2[3]
            if not re.search(r"cmp::(Ord::cmp|PartialOrd::partial_cmp)$", cs.callee or "") or len(cs.args) != 2:
                continue
            if cs.callee.endswith("partial_cmp"):
                continue
            P = (d2[0], TERM)
            a = self._lin_deref(cs.args[0], P)
            b = self._lin_deref(cs.args[1], P)
            if a is None or b is None:
                continue
            vals = set()
            for l in allowed:
                if l == "otherwise":
                    vals = None
                    break
                vals.add(-1 if l in (255, -1) else l)
            if vals is None:
                # otherwise edge: all labels not explicitly listed
                listed = set(-1 if l in (255, -1) else l for l in labels if l != "otherwise")
                vals = {-1, 0, 1} - listed
                for l in allowed:
                    if l != "otherwise":
                        vals.add(-1 if l in (255, -1) else l)
            rels = {frozenset([-1]): "<", frozenset([1]): ">", frozenset([0]): "==",
                    frozenset([-1, 0]): "<=", frozenset([0, 1]): ">="}
            rel = rels.get(frozenset(vals))
            if rel:
                out += self._facts_valid(self._rel(rel, a, b, True, P, at_g), P, S)
        self._facts_cache[key] = out
        return out

    def _facts_valid(self, fs, P, S):
        return [f for f in fs if self.valid_between(f, P, S)]

    # ------------------------------------------------------------------ intervals
    def ty_range(self, atom):
        ty = self.atom_ty.get(atom)
        if ty in INT_RANGE:
            return INT_RANGE[ty]
        return (-INF, INF)

    def atom_bounds(self, atom, S, depth=0):
        lo, hi = self.ty_range(atom)
        for F in self.facts_at(S):
            c = F.c.get(atom, 0)
            if c == 0:
                continue
            others_ok = all((v <= 0 and self.ty_range(a)[0] >= 0) for a, v in F.c.items() if a != atom)
            if not others_ok:
                continue
            if c < 0:       # -m*a + k + (<=0) >= 0  ->  a <= k/m
                hi = min(hi, F.k // (-c))
            else:           # m*a + k + (<=0) >= 0   ->  a >= -k/m
                lo = max(lo, -(F.k // c))
        # multiply-defined local: maximum over its definitions
        b = _base(atom)
        if b is not None and depth < 6:
            dhi = self._defs_ub(atom, b, depth)
            if dhi is not None:
                hi = min(hi, dhi)
        return lo, hi

    def _defs_ub(self, atom, b, depth):
        fn = self.fn
        rest = atom[len("_%d" % b):]
        if 0 < b <= fn.arg_count:
            return None
        ds = fn.defs().get(b, [])
        if len(ds) < 2 and not rest:
            return None
        if atom in self._ub_busy:
            return self._ub_busy[atom]      # assumed value during fixpoint (None = bottom)
        alts = []
        for (bb, si, proj, rv) in ds:
            if proj != ():
                return None
            if si == "call":
                return None
            P = (bb, si)
            if rest == "":
                alts.append((rv, P))
            else:
                m = re.match(r"^@(\w+)\.(\d+)$", rest)
                if not m or rv[0] != "agg" or rv[1] != "adt":
                    return None
                vname = rv[3][0]
                if vname != m.group(1):
                    continue
                alts.append((["use", rv[4][int(m.group(2))]], P))
        if not alts:
            return None

        def eval_all():
            best = -INF
            for rv, P in alts:
                L = self._rv_lin(rv, P)
                if L is None:
                    return INF
                u = self.ub(L, P, depth + 1, bottom_ok=True)
                if u is None:
                    continue
                best = max(best, u)
            return best

        self._ub_busy[atom] = None
        try:
            u = eval_all()
            if u == -INF:
                return None
            # verify it is a post-fixpoint
            self._ub_busy[atom] = u
            u2 = eval_all()
            if u2 > u:
                return None
            return u
        finally:
            del self._ub_busy[atom]

    def _rv_lin(self, rv, P):
        k = rv[0]
        if k == "use":
            return self.lin_op(rv[1], P)
        if k == "cast" and rv[1] == "IntToInt":
            to, frm = rv[3], (rv[4] if len(rv) > 4 else None)
            if frm in INT_RANGE and to in INT_RANGE and INT_RANGE[frm][0] >= INT_RANGE[to][0] and INT_RANGE[frm][1] <= INT_RANGE[to][1]:
                return self.lin_op(rv[2], P)
        return None

    def ub(self, L, S, depth=0, bottom_ok=False):
        """Upper bound of L at S (INF if unknown). With bottom_ok, None means 'bottom' (only cyclic alternatives)."""
        tot = L.k
        for a, c in L.c.items():
            if a in self._ub_busy:
                v = self._ub_busy[a]
                if v is None:
                    if c > 0:
                        if bottom_ok:
                            return None
                        return INF
                    lo = self.ty_range(a)[0]
                    if lo == -INF:
                        return INF
                    tot += c * lo
                    continue
                lo, hi = self.ty_range(a)[0], v
            else:
                lo, hi = self.atom_bounds(a, S, depth)
            x = hi if c > 0 else lo
            if x in (INF, -INF):
                return INF
            tot += c * x
        return tot

    def lb(self, L, S, depth=0):
        tot = L.k
        for a, c in L.c.items():
            lo, hi = self.atom_bounds(a, S, depth)
            x = lo if c > 0 else hi
            if x in (INF, -INF):
                return -INF
            tot += c * x
        return tot

    def nonneg(self, L, S):
        """(ok, witness) — is L >= 0 implied at S by intervals or by one dominating fact?"""
        if self.lb(L, S) >= 0:
            return True, "interval"
        for F in self.facts_at(S):
            D = L.sub(F)
            if self.lb(D, S) >= 0:
                return True, "fact %s >= 0" % self.render(F)
        return False, "facts: %s" % [self.render(F) + ">=0" for F in self.facts_at(S)][:8]

    # ------------------------------------------------------------------ site enumeration
    def sub_sites(self):
        """Raw subtraction statements: (bb, idx, a_op, b_op, ty, checked)."""
        out = []
        for bb, si, s in self.fn.statements():
            if self.fn.blocks[bb].get("cleanup"):
                continue
            if s[0] == "=" and s[2][0] == "bin" and s[2][1] in ("Sub", "SubWithOverflow", "SubUnchecked"):
                out.append((bb, si, s[2][2], s[2][3], s[2][4] if len(s[2]) > 4 else "", s))
        return out

    def bin_sites(self, ops):
        out = []
        for bb, si, s in self.fn.statements():
            if self.fn.blocks[bb].get("cleanup"):
                continue
            if s[0] == "=" and s[2][0] == "bin" and s[2][1].replace("WithOverflow", "") in ops:
                out.append((bb, si, s[2][2], s[2][3], s[2][4] if len(s[2]) > 4 else "", s))
        return out


def in_debug_assert(fn, bb_or_stmt):
    mac = bb_or_stmt if isinstance(bb_or_stmt, list) else fn.blocks[bb_or_stmt].get("mac", [])
    return any(m.startswith("debug_assert") for m in (mac or []))


def uses_of(fn, local):
    """Where is `local` read? list of ('stmt', bb, idx, stmt) / ('call', bb, CallSite, argidx) / ('term', bb, t)."""
    out = []

    def mentions(op):
        return isinstance(op, list) and op and op[0] == local

    for bb, si, s in fn.statements():
        if s[0] != "=":
            continue
        rv = s[2]
        ops = []
        k = rv[0]
        if k in ("use", "discr", "len"):
            ops = [rv[1]]
        elif k in ("ref", "rawptr"):
            ops = [rv[2]]
        elif k == "bin":
            ops = [rv[2], rv[3]]
        elif k in ("un", "cast"):
            ops = [rv[2]]
        elif k == "agg":
            ops = list(rv[4])
        elif k == "repeat":
            ops = [rv[1]]
        if any(mentions(o) for o in ops):
            out.append(("stmt", bb, si, s))
    for cs in fn.calls:
        for i, a in enumerate(cs.args):
            if mentions(a):
                out.append(("call", cs.bb, cs, i))
    for i, b in enumerate(fn.blocks):
        t = b["t"]
        if t[0] in ("switch", "assert") and mentions(t[1]):
            out.append(("term", i, t))
    return out


def consumed_by_try(fn, cs, via=r"(Option::ok_or|Option::ok_or_else|Result::map_err|Result::ok)$", max_hops=4):
    """Does the result of call `cs` flow (through `via` adaptors and plain moves only) into a `?` (Try::branch)?
    Returns (ok, chain)."""
    chain = [cs.short]
    cur = cs.dest
    for _ in range(max_hops * 3):
        if len(cur) != 1:
            return False, chain
        us = uses_of(fn, cur[0])
        if len(us) != 1:
            return False, chain + ["%d uses" % len(us)]
        u = us[0]
        if u[0] == "stmt" and u[3][2][0] == "use":
            cur = u[3][1]
            continue
        if u[0] == "call":
            c2, idx = u[2], u[3]
            if c2.short == "Try::branch":
                return True, chain + ["?"]
            if idx == 0 and re.search(via, c2.short):
                chain.append(c2.short)
                cur = c2.dest
                continue
            return False, chain + [c2.short]
        return False, chain + [u[0]]
    return False, chain
