"""Group C helpers for configuration tables (C16, C17, C40): key->field match tables, builder bindings, naming rules."""
import re

from . import analyses as A
from . import h_C as H

PROG_MARKET = "gmsol_store::states::market::Market"
SDK_MARKET_MODEL = "gmsol_programs::model::market::MarketModel"
MODEL_TRAITS = r"^gmsol_model::(BaseMarket|SwapMarket|PositionImpactMarket|BorrowingFeeMarket|PerpMarket|LiquidityMarket|" \
               r"BaseMarketMut|SwapMarketMut|PositionImpactMarketMut|BorrowingFeeMarketMut|PerpMarketMut|LiquidityMarketMut|Bank)\b"


def snake(name):
    s = re.sub(r"(?<=[a-z0-9])([A-Z])", r"_\1", name)
    s = re.sub(r"([A-Z]+)([A-Z][a-z])", r"\1_\2", s)
    return s.lower()


def toks(name):
    return [t for t in name.split("_") if t]


def self_field(e, prefix=r"self"):
    """`self.f` / `Option::Some{0: self.f}` -> 'f' (single projection below `prefix`), else None."""
    x = H.unwrap_ok(e) if e is not None and e.k == "agg" else e
    if x is None:
        return None
    m = re.match(r"^%s\.([a-z0-9_]+)$" % prefix, str(x))
    return m.group(1) if m else None


def key_table(prog, fn, key_adt, scrut_re=r"^key$"):
    """{variant: field-of-self | None}, wildcard result list. Uses the discriminant switch of the match."""
    t = A.match_table(fn, prog, scrut_re, key_adt)
    out = {}
    wild = t.pop("_", [])
    for v, rs in t.items():
        if len(rs) == 1:
            out[v] = self_field(rs[0])
        else:
            out[v] = None
    return out, wild


# ----------------------------------------------------------------------------- builder bindings


def builder_bindings(e, ctxpath=()):
    """Flatten a typed-builder chain `XBuilder::build(XBuilder::s2(XBuilder::s1(X::builder(), v1), v2))`.
    Returns (list of (ctxpath, builder_type, setter, value E), ok) — value chains that are themselves builders are
    expanded recursively with ctxpath extended by the outer setter."""
    out = []
    ok = True
    if e is None or e.k != "call":
        return out, False
    name = e.a[0]
    m = re.match(r"^([A-Za-z0-9_]+)Builder::build$", name)
    if not m or len(e.a[1]) != 1:
        return out, False
    ty = m.group(1)
    cur = e.a[1][0]
    while True:
        if cur.k != "call":
            return out, False
        nm = cur.a[0]
        if nm == "%s::builder" % ty and len(cur.a[1]) == 0:
            break
        m2 = re.match(r"^%sBuilder::([a-z0-9_]+)$" % re.escape(ty), nm)
        if not m2 or len(cur.a[1]) != 2:
            return out, False
        setter = m2.group(1)
        val = cur.a[1][1]
        if val.k == "call" and re.search(r"Builder::build$", val.a[0]):
            sub, sok = builder_bindings(val, ctxpath + (setter,))
            out.extend(sub)
            ok = ok and sok
        else:
            out.append((ctxpath, ty, setter, val))
        cur = cur.a[1][0]
    return out, ok


def classify_source(e):
    """Where does a bound value come from?
    ('field', name) | ('acc', accessor, side) | ('flag', Variant) | ('const', str) | ('other', str)"""
    s = str(e)
    m = re.match(r"^self\.config\.([a-z0-9_]+)$", s)
    if m:
        return ("field", m.group(1))
    m = re.match(r"^MarketConfig::([a-z0-9_]+)\(self\.config(?:, (true|false))?, (?:Market|MarketModel)::is_closed\(self\)\)$", s)
    if m:
        return ("acc", m.group(1), {"true": True, "false": False, None: None}[m.group(2)])
    m = re.match(r"^MarketConfig::flag\(self\.config, MarketConfigFlag::([A-Za-z0-9]+)\{\}\)$", s)
    if m:
        return ("flag", m.group(1))
    if e.k == "const":
        return ("const", s)
    return ("other", s)


def source_name(src):
    """Name to which the naming rule is applied (accessor + side suffix for sided accessors)."""
    if src[0] == "field":
        return src[1]
    if src[0] == "acc":
        if src[2] is None:
            return src[1]
        return src[1] + ("_for_long" if src[2] else "_for_short")
    if src[0] == "flag":
        return snake(src[1])
    return None


FILLER = {"for", "fee", "token"}


def binding_name_ok(method, ctxpath, setter, name):
    """Token-subset naming agreement between a builder setter inside trait method `method` and the config name."""
    st = set(toks(setter))
    nt = set(toks(name))
    mt = set(toks(method)) - {"params"}
    side = set()
    for c in ctxpath:
        if c in ("long", "short"):
            side.add(c)
    if not st <= nt:
        return False, "setter tokens %s not all in `%s`" % (sorted(st - nt), name)
    extra = nt - st - mt - FILLER - side
    if extra:
        return False, "`%s` has tokens %s that neither the setter `%s` nor the method `%s` names" % (name, sorted(extra), setter, method)
    if side and not (side & nt):
        return False, "`%s` is bound under .%s(..) but does not name that side" % (name, "/".join(sorted(side)))
    for w, o in (("long", "short"), ("short", "long"), ("positive", "negative"), ("negative", "positive"),
                 ("max", "min"), ("min", "max"), ("increase", "decrease"), ("decrease", "increase")):
        if w in (st | side) and o in nt and o not in (st | side):
            return False, "`%s` names `%s` but the setter names `%s`" % (name, o, w)
    return True, ""


def side_pair_ok(method, long_name, short_name):
    """true arm -> *long*, false arm -> same name with long->short; name extends the method name by a side suffix."""
    lt, st_, mt = toks(long_name), toks(short_name), toks(method)
    if "long" not in lt or "short" in lt:
        return False, "true arm reads `%s` (no `long`)" % long_name
    if [("short" if t == "long" else t) for t in lt] != st_:
        return False, "false arm reads `%s`, not the short twin of `%s`" % (short_name, long_name)
    if not set(mt) <= set(lt):
        return False, "`%s` does not contain the tokens of `%s`" % (long_name, method)
    extra = set(lt) - set(mt) - {"for", "long", "token"}
    if extra:
        return False, "`%s` has tokens %s not named by `%s`" % (long_name, sorted(extra), method)
    return True, ""


def bool_table(fn, param, prefix_ok=True):
    """{True: ret E, False: ret E} for a function branching on bool parameter `param` (None if not such a shape)."""
    out = {}
    for p in H.paths(fn):
        t = H.truth_on_path(p, r"^%s$" % re.escape(param))
        if t is None:
            return None
        if t in out and str(out[t]) != str(p["ret"]):
            return None
        out[t] = p["ret"]
    return out if set(out) == {True, False} else None


def model_methods(prog, adt_id):
    """Trait methods of the gmsol_model market traits implemented for the given type: {(trait_short, method): Fn}."""
    out = {}
    for f in H.impl_fns(prog, adt_id):
        tr = (f.impl or {}).get("trait") or ""
        if re.search(MODEL_TRAITS, tr):
            out[(re.sub(r"<.*$", "", tr).split("::")[-1], f.name)] = f
    return out
