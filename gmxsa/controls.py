"""Positive controls (thorough tier): every armed rule family must be shown to FIRE.

controls/<Cxx>/EXPECT lists `<patch>.diff <regex>` pairs. Each patch is a micro-mutation of /repo that keeps the
workspace compiling but breaks one claimed clause. The thorough tier applies each patch to a scratch worktree of
/repo's HEAD (+ the working tree's uncommitted changes), re-extracts the facts of that tree with the same driver,
runs the property's rule on them and demands a violation whose key matches the regex. A rule that cannot be
shown to fire is reported as a broken check, not as a pass. /repo itself is never modified.
"""
import importlib
import os
import re
import shutil
import subprocess

from . import facts as _facts


def _git(args, cwd, check=True):
    return subprocess.run(["git"] + args, cwd=cwd, stdout=subprocess.PIPE, stderr=subprocess.STDOUT, text=True, check=check)


def read_expect(prop):
    d = os.path.join(_facts.VERIF, "controls", prop)
    p = os.path.join(d, "EXPECT")
    out = []
    if not os.path.exists(p):
        return out
    for line in open(p):
        line = line.strip()
        if not line or line.startswith("#"):
            continue
        name, rx = line.split(None, 1)
        out.append((os.path.join(d, name), rx.strip()))
    return out


def run_controls(ctx, prop, log=None):
    from .report import Ctx
    pairs = read_expect(prop)
    ctx.rule("positive-control", "each micro-patch in controls/%s (and each kept independently seeded change of this property "
             "that the check is recorded to catch) applied to a scratch copy of /repo makes the rule report the expected "
             "violation key (the check is shown to be able to fire)" % prop)
    ctx.rule("negative-control", "with all behaviour-preserving refactors of controls/benign/ applied together to a scratch copy "
             "of /repo the rule reports no violation (the check is shown to stay silent on equivalent code)")
    # independently seeded changes recorded as detected by this property's own check
    mp = os.path.join(_facts.VERIF, "seeded", "MATRIX.json")
    if os.path.exists(mp):
        import json
        for sid, ent in sorted(json.load(open(mp)).items()):
            if ent.get("check") == prop and ent.get("status") == "detected" and ent.get("keys"):
                patch = os.path.join(_facts.VERIF, "seeded", sid, "patch.diff")
                if os.path.exists(patch):
                    # any violation of this property counts: the recorded keys are informational (key spellings may
                    # be refined later; MATRIX.json is refreshed by tools/seed_matrix.py)
                    pairs.append((patch, "."))
    bdir = os.path.join(_facts.VERIF, "controls", "benign")
    benign = []
    if os.path.isdir(bdir):
        for d in sorted(os.listdir(bdir)):
            dd = os.path.join(bdir, d)
            if os.path.isdir(dd):
                benign.extend(os.path.join(dd, f) for f in sorted(os.listdir(dd)) if f.endswith(".diff"))
    if not pairs and not benign:
        ctx.note("no controls registered for %s" % prop)
        return
    wt = "/var/tmp/gmxsa-ctl-%s-%d" % (prop, os.getpid())
    fd = os.path.join(_facts.CACHE, "facts-ctl-%s-%d" % (prop, os.getpid()))
    repo = _facts.REPO
    try:
        _git(["worktree", "add", "--detach", "-q", wt, "HEAD"], repo)
        # carry over uncommitted changes of the working tree (checks must reflect /repo as it is)
        diff = subprocess.run(["git", "diff", "HEAD"], cwd=repo, stdout=subprocess.PIPE, text=True).stdout
        if diff.strip():
            subprocess.run(["git", "apply", "--whitespace=nowarn"], cwd=wt, input=diff, text=True, check=True)
            _git(["add", "-A"], wt)
            _git(["-c", "user.email=x@x", "-c", "user.name=x", "commit", "-qm", "wt"], wt)
        mod = importlib.import_module("gmxsa.rules." + prop)
        # ---- negative control: all benign refactors together
        if benign:
            applied = 0
            for bp in benign:
                r = subprocess.run(["git", "apply", "--whitespace=nowarn", bp], cwd=wt, stdout=subprocess.PIPE,
                                   stderr=subprocess.STDOUT, text=True)
                if r.returncode == 0:
                    applied += 1
            try:
                try:
                    _facts.ensure(repo=wt, facts_dir=fd)
                    from . import report as _report
                    for k in [k for k in _report._PROG_CACHE if k[0] == fd]:
                        del _report._PROG_CACHE[k]
                    sub = Ctx(prop, "quick", 0, facts_dir=fd, scratch=True)
                    sub.guard("module", mod.run, sub)
                    keys = [v["key"] for v in sub.violations]
                    ctx.ob("negative-control:benign-refactors", not keys and applied > 0,
                           "%d/%d behaviour-preserving refactors applied together: rule reported %d violation(s) %s" % (
                               applied, len(benign), len(keys), keys[:6]), where="controls/benign", detail={"applied": applied})
                except SystemExit as e:
                    ctx.ob("negative-control:benign-refactors", False, "benign refactors do not compile / extract: %s" % e,
                           where="controls/benign")
            finally:
                _git(["checkout", "-q", "--", "."], wt, check=False)
                _git(["clean", "-fdq"], wt, check=False)
        for patch, rx in pairs:
            name = os.path.basename(patch)
            if "/seeded/" in patch:
                name = "seeded/" + os.path.basename(os.path.dirname(patch))
            r = subprocess.run(["git", "apply", "--whitespace=nowarn", patch], cwd=wt, stdout=subprocess.PIPE,
                               stderr=subprocess.STDOUT, text=True)
            if r.returncode != 0:
                ctx.ob("positive-control:" + name, False, "control patch does not apply to the current tree: %s" % r.stdout[-300:],
                       where=patch)
                continue
            try:
                try:
                    _facts.ensure(repo=wt, facts_dir=fd)
                except SystemExit as e:
                    ctx.ob("positive-control:" + name, False, "control patch does not compile / extract: %s" % e, where=patch)
                    continue
                from . import report as _report
                for k in [k for k in _report._PROG_CACHE if k[0] == fd]:
                    del _report._PROG_CACHE[k]
                sub = Ctx(prop, "quick", 0, facts_dir=fd, scratch=True)
                sub.guard("module", mod.run, sub)
                keys = [v["key"] for v in sub.violations]
                hit = [k for k in keys if re.search(rx, k)]
                ctx.ob("positive-control:" + name, bool(hit),
                       "control %s: rule reported %d violation(s); expected key /%s/ %s" % (
                           name, len(keys), rx, "matched by %s" % hit[:3] if hit else "NOT matched (got %s)" % keys[:6]),
                       where=patch, detail={"violations": keys[:12]})
            finally:
                _git(["checkout", "-q", "--", "."], wt, check=False)
                _git(["clean", "-fdq"], wt, check=False)
    finally:
        _git(["worktree", "remove", "--force", wt], repo, check=False)
        shutil.rmtree(wt, ignore_errors=True)
        shutil.rmtree(fd, ignore_errors=True)
