"""C08 (part 2) per-action token conservation identities, keyed `conserve:<action>:<token-side>`.

On every (feasible) success path of an action the ledger effects — calls of the primitives
    BaseMarketMutExt::apply_delta                      liquidity[side]      += d
    BaseMarketMutExt::apply_delta_to_claimable_fee_pool claimable_fee[side] += d
    PoolExt::apply_delta_amount(<x>_pool_mut()?, ..)   <x>[side]            += d
    SwapMarketMutExt::apply_swap_impact_value_with_cap swap_impact[side]    -= r (usd>0) / += r (usd<0), r = its result
(whose bodies are checked under conserve:primitive:*) — are collected with path-sensitive provenance and summed per
token side as integer linear forms over opaque atoms.  Price conversions stay opaque atoms; an identity holds only if
the SAME atom is credited and debited.
"""
import re

from . import analyses as A
from . import h_B as H
from . import anchor
from .model import short_path

TOKEN_POOLS = ("liquidity", "claimable_fee", "swap_impact", "collateral_sum")


def run(ctx, prog):
    _primitives(ctx, prog)
    _deposit(ctx, prog)
    _withdraw(ctx, prog)
    _fee_decomposition(ctx, prog)
    _increase(ctx, prog)
    _decrease(ctx, prog)


# ------------------------------------------------------------------------------------------------ helpers

def _fee_namer(x):
    """Fees getters on the result of a charge_fees / apply_fees call are pure: name them by content, not by call site."""
    if x.k == "call" and x.a[0] in ("Fees::fee_amount_for_receiver", "Fees::fee_amount_for_pool") and len(x.a[1]) == 1:
        return "%s(%s)" % (x.a[0].split("::")[1], H.atom_name(x.a[1][0], _fee_namer))
    return None


def _lin(e):
    return H.lin_of(e, _fee_namer)


def _mut_escapes(fn, path):
    """(path position, call site, root local) for every `&mut local` handed to a call on the path."""
    out = []
    defs = fn.defs()
    for c in path["calls"]:
        for a in c.args:
            if not isinstance(a, list):
                continue
            seen = set()
            n = a[0]
            while n not in seen:
                seen.add(n)
                ds = [d for d in defs.get(n, []) if d[2] == () and d[0] in path["ev"].pos and not hasattr(d[3], "callee")]
                hit = None
                for d in ds:
                    rv = d[3]
                    if isinstance(rv, list) and rv[0] == "ref" and rv[1] in ("mut", "Mut") and isinstance(rv[2], list):
                        hit = ("mut", rv[2][0], rv[2][1:])
                    elif isinstance(rv, list) and rv[0] == "use" and isinstance(rv[1], list):
                        hit = ("copy", rv[1][0], rv[1][1:])
                if hit is None:
                    break
                if hit[0] == "mut" and "*" not in hit[2]:
                    out.append((path["ev"].pos[c.bb], c, hit[1]))
                    break
                n = hit[1]
    return out



def _fee_helper_ok(callee):
    """A private helper `h(.., amount: &mut T) -> Result<Fees>`: *amount = apply_fees(params, bc, amount)?.0, returns .1 of that call."""
    ps = H.success_paths(callee)
    if len(ps) != 1:
        return False, "%d success paths" % len(ps)
    p = ps[0]
    ap = [c for c in p["calls"] if c.short == "FeeParams::apply_fees"]
    if len(ap) != 1:
        return False, "apply_fees x%d" % len(ap)
    amt = p["ev"].call_args(ap[0])[2]
    st = [x for x in H.stores_on_path(callee, p) if str(x["dest"]) == str(amt)]
    ret = dict(p["ret"].a[1]).get("0") if p["ret"].k == "agg" else None
    ok = amt.k == "param" and len(st) == 1 and ret is not None
    if ok:
        r0, p0 = H.chain_root(st[0]["value"])
        r1, p1 = H.chain_root(ret)
        ok = r0.k == "call" and r1.k == "call" and r0.a[2] is ap[0] and r1.a[2] is ap[0] and p0 == ".0" and p1 == ".1" and \
            re.match(r"^SwapMarket::swap_fee_params\(self\.market\)\?$", str(p["ev"].call_args(ap[0])[0])) is not None
    return ok, "*%s = apply_fees(swap_fee_params, .., %s)?.0 ; returns .1" % (amt, amt)


def _fee_steps(f, p):
    """Fee charging steps on the path, whether apply_fees is called directly or through a private helper that rewrites the
    amount in place.  Each step: dict(pos, amount=E given to apply_fees (caller view), bc=E, namer, helper=Fn|None, why)."""
    ev = p["ev"]
    steps = []
    esc = _mut_escapes(f, p)
    for e in H.deep_calls(f, p, r"^FeeParams::apply_fees$"):
        top, inner = e["cs"], e["inner"]
        step = {"pos": ev.pos[top.bb], "amount": e["args"][2], "bc": e["args"][1], "top": top, "helper": None, "bad": []}
        if e["depth"] == 0:
            def namer(x, inner=inner, idx=len(steps)):
                r, proj = H.chain_root(x)
                if r.k == "call" and len(r.a) > 2 and r.a[2] is inner and proj in (".0", ".1"):
                    return "FEE%d%s" % (idx, proj)
                return None
        else:
            callee = (f.prog.callees(top) or [None])[0]
            step["helper"] = callee
            ok, why = _fee_helper_ok(callee) if callee is not None and e["depth"] == 1 else (False, "nested helper")
            if not ok:
                step["bad"].append("fee helper %s: %s" % (callee.short if callee else "?", why))
            loc = [l for pos, cc, l in esc if cc is top]
            if len(loc) != 1 or [cc for pos, cc, l in esc if l == loc[0] and cc is not top]:
                step["bad"].append("the amount is not handed by &mut to the fee helper exactly once")
            amt_atom = H.atom_name(e["args"][2])

            def namer(x, top=top, amt_atom=amt_atom, idx=len(steps)):
                r, proj = H.chain_root(x)
                if r.k == "call" and len(r.a) > 2 and r.a[2] is top and proj == "":
                    return "FEE%d.1" % idx
                if H.atom_name(x) == amt_atom:
                    return "FEE%d.0" % idx
                return None
        step["namer"] = namer
        steps.append(step)
    return steps


def _fee_lin(steps):
    def namer(x):
        if x.k == "call" and x.a[0] in ("Fees::fee_amount_for_receiver", "Fees::fee_amount_for_pool") and len(x.a[1]) == 1:
            return "%s(%s)" % (x.a[0].split("::")[1], H.atom_name(x.a[1][0], namer))
        for st in steps:
            n = st["namer"](x)
            if n is not None:
                return n
        return None
    return lambda e: H.lin_of(e, namer)


# ------------------------------------------------------------------------------------------------ primitives

def _primitives(ctx, prog):
    f = ctx.fn(r"gmsol_model::market::base::BaseMarketMutExt::apply_delta")
    if f is not None:
        ps = H.success_paths(f)
        tab = {}
        bad = []
        for p in ps:
            t = H.path_truth(p, r"^is_long_token$")
            ca = [c for c in p["calls"] if c.short == "BaseMarketExt::checked_apply_delta"]
            st = H.stores_on_path(f, p, r"_pool_mut\(self\)")
            if len(ca) != 1:
                bad.append("checked_apply_delta x%d" % len(ca))
                continue
            d = str(p["ev"].call_args(ca[0])[1])
            tab.setdefault(t, set()).add(d)
            liq = [s_ for s_ in st if "liquidity_pool_mut(self)" in str(s_["dest"])]
            if len(liq) != 1 or not re.match(r"^BaseMarketExt::checked_apply_delta\(self, .*\)\?\.0$", str(liq[0]["value"])):
                bad.append("liquidity pool not replaced by the .0 result")
        ctx.ob("conserve:primitive:apply_delta", not bad and tab == {True: {"Delta::new_with_long(delta)"}, False: {"Delta::new_with_short(delta)"}},
               "apply_delta(is_long_token, delta): liquidity pool := checked_apply_delta(%s).0%s" % ({k: sorted(v) for k, v in tab.items()}, "; %s" % bad[:2] if bad else ""),
               where=f.where())
    f = ctx.fn(r"gmsol_model::market::base::BaseMarketMutExt::apply_delta_to_claimable_fee_pool")
    if f is not None:
        cs = [c for c in f.calls if c.short == "PoolExt::apply_delta_amount"]
        ok = len(cs) == 1 and [str(cs[0].arg_expr(i)) for i in range(3)] == ["BaseMarketMut::claimable_fee_pool_mut(self)?", "is_long_token", "delta"] and \
            anchor.try_switch_of(f, cs[0]) is not None
        ctx.ob("conserve:primitive:apply_delta_to_claimable_fee_pool", ok, "= claimable_fee_pool_mut()?.apply_delta_amount(is_long_token, delta)?", where=f.where())
    f = ctx.fn(r"gmsol_model::market::swap::SwapMarketMutExt::apply_swap_impact_value_with_cap")
    if f is not None:
        ps = H.success_paths(f)
        tab = {}
        bad = []
        amt = r"SwapMarketExt::swap_impact_amount_with_cap\(self, is_long_token, price, usd_impact\)\?\.0"
        for p in ps:
            t = H.path_truth(p, r"^is_long_token$")
            cs = [c for c in p["calls"] if c.short in ("Pool::apply_delta_to_long_amount", "Pool::apply_delta_to_short_amount")]
            if len(cs) != 1:
                bad.append("%d applications" % len(cs))
                continue
            a = p["ev"].call_args(cs[0])
            tab[t] = cs[0].short.split("_to_")[1]
            if str(a[0]) != "SwapMarketMut::swap_impact_pool_mut(self)?" or H.lin_of(a[1]).show() != "-swap_impact_amount_with_cap()@bb%d.0" % [c.bb for c in p["calls"] if c.short.endswith("swap_impact_amount_with_cap")][0]:
                bad.append("applied delta %s" % H.lin_of(a[1]).show())
            r = dict(p["ret"].a[1])["0"]
            if not (r.k == "call" and r.a[0] == "UnsignedAbs::unsigned_abs" and str(r.a[1][0]) == str(a[1])):
                bad.append("returns %s" % str(r)[:80])
        ctx.ob("conserve:primitive:apply_swap_impact_value_with_cap", not bad and tab == {True: "long_amount", False: "short_amount"},
               "swap_impact[is_long_token] += -amount and returns |-amount| (amount = swap_impact_amount_with_cap(..).0, same sign as usd_impact): %s%s" % (
                   tab, "; %s" % bad[:2] if bad else ""), where=f.where())


# ------------------------------------------------------------------------------------------------ (a) deposit

def _deposit(ctx, prog):
    f = ctx.fn(r"gmsol_model::action::deposit::Deposit::<M, DECIMALS>::execute_deposit")
    if f is not None:
        ps = [p for p in H.success_paths(f) if not H.impossible_sign_path(p)]
        ctx.floor("conserve:deposit:paths", len(ps), 4)
        bad_in, bad_out, bad_fee = [], [], []
        seen = set()
        forms = set()
        for p in ps:
            ev = p["ev"]
            eff = H.pool_effects(f, p)
            steps = _fee_steps(f, p)
            if len(steps) != 1:
                bad_fee.append("%d fee steps on a success path" % len(steps))
                continue
            st = steps[0]
            bad_fee.extend(st["bad"])
            forms.add("helper %s" % st["helper"].short if st["helper"] is not None else "apply_fees inline")
            lin = _fee_lin(steps)
            tot, bad = H.ledger(eff, r"^is_long_token$", lin, TOKEN_POOLS)
            bad_in.extend(bad)
            other = [e["pool"] for e in eff if e["pool"] not in TOKEN_POOLS]
            if other:
                bad_in.append("effects on other pools %s" % other)
            if any(ev.pos[e["cs"].bb] < st["pos"] for e in eff):
                bad_in.append("a pool effect precedes the fee step")
            src = str(st["amount"])
            if not re.match(r"^DepositParams::reassign_values\(self\.params, is_long_token\)\.amount$", src):
                bad_fee.append("fee base %s" % src[:80])
            want = H.Lin({"FEE0.0": 1, "fee_amount_for_pool(FEE0.1)": 1, "fee_amount_for_receiver(FEE0.1)": 1})
            got = tot.get("S", H.Lin())
            seen.add(tuple(sorted(set(e["pool"] for e in eff))))
            if got != want:
                bad_in.append("in-side sum %s != %s" % (got.show(), want.show()))
            if tot.get("!S", H.Lin()):
                bad_out.append("other-side sum %s" % tot["!S"].show())
            if set(tot) - {"S", "!S"}:
                bad_out.append("constant side %s" % sorted(tot))
        ctx.ob("conserve:deposit:charge_fees", not bad_fee and len(ps) > 0,
               "execute_deposit charges fees once per path on reassign_values(params, is_long_token).amount; (amount_after_fees, fees) are (.0, .1) of one "
               "apply_fees(swap_fee_params, ..) call (%s)%s" % (sorted(forms), "; VIOLATED: %s" % sorted(set(bad_fee))[:2] if bad_fee else ""), where=f.where())
        ctx.ob("conserve:deposit:in-side", not bad_in and not bad_fee and len(ps) > 0,
               "execute_deposit, %d success paths: Δliquidity+Δswap_impact+Δclaimable_fee on the deposited token = amount_after_fees + fee_for_pool + "
               "fee_for_receiver of that fee step (pool sets seen: %s)%s" % (
                   len(ps), sorted(seen), "; VIOLATED: %s" % sorted(set(bad_in))[:2] if bad_in else ""), where=f.where())
        ctx.ob("conserve:deposit:other-side", not bad_out and len(ps) > 0,
               "execute_deposit: on the other token the deltas cancel (positive impact moves the same amount from the impact pool to the liquidity pool)%s" % (
                   "; VIOLATED: %s" % sorted(set(bad_out))[:2] if bad_out else ""), where=f.where())
    rv = ctx.fn(r"gmsol_model::action::deposit::DepositParams::<T>::reassign_values")
    if rv is not None:
        tab = {}
        for p in H.success_paths(rv, kinds=("ok", "unknown")):
            t = H.path_truth(p, r"^is_long_token$")
            a = dict(p["ret"].a[1]).get("amount") if p["ret"].k == "agg" else None
            tab[t] = str(a)
        ctx.ob("conserve:deposit:amount-source", tab == {True: "self.long_token_amount", False: "self.short_token_amount"},
               "reassign_values(is_long_token).amount = %s" % tab, where=rv.where())
    ex = ctx.fn(r"Deposit<M, DECIMALS> as gmsol_model::action::MarketAction>::execute")
    if ex is not None:
        ps = H.success_paths(ex)
        bad = []
        for p in ps:
            want = set()
            for nm, flag in (("long_token_amount", "true"), ("short_token_amount", "false")):
                z = H.path_truth(p, r"^Zero::is_zero\(self\.params\.%s\)$" % nm)
                if z is None:
                    bad.append("no test of %s" % nm)
                elif not z:
                    want.add(flag)
            got = sorted(str(p["ev"].call_args(c)[1]) for c in p["calls"] if c.short == "Deposit::execute_deposit")
            if got != sorted(want):
                bad.append("execute_deposit sides %s, non-zero amounts %s" % (got, sorted(want)))
            eff = [e for e in H.pool_effects(ex, p)]
            if eff:
                bad.append("execute itself applies %s" % [e["pool"] for e in eff])
        ctx.ob("conserve:deposit:sides", not bad and len(ps) >= 3,
               "Deposit::execute runs execute_deposit(true/false) exactly for the non-zero long/short amounts and applies no other pool delta (%d paths)%s" % (
                   len(ps), "; %s" % sorted(set(bad))[:2] if bad else ""), where=ex.where())


# ------------------------------------------------------------------------------------------------ (b) withdrawal

def _withdraw(ctx, prog):
    f = ctx.fn(r"Withdrawal<M, DECIMALS> as gmsol_model::action::MarketAction>::execute")
    if f is None:
        return
    ps = H.success_paths(f)
    ctx.floor("conserve:withdraw:paths", len(ps), 1)
    res = {"true": [], "false": []}
    bad_fee = []
    forms = set()
    for p in ps:
        ev = p["ev"]
        eff = H.pool_effects(f, p)
        steps = _fee_steps(f, p)
        if len(steps) != 2:
            bad_fee.append("%d fee steps (expected one per token)" % len(steps))
            continue
        for st in steps:
            bad_fee.extend(st["bad"])
            forms.add("helper %s" % st["helper"].short if st["helper"] is not None else "apply_fees inline")
            if str(st["bc"]) != "BalanceChange::Worsened{}":
                bad_fee.append("balance change %s" % st["bc"])
        lin = _fee_lin(steps)
        tot, bad = H.ledger(eff, r"^\b$", lin, TOKEN_POOLS)
        rep = dict(dict(p["ret"].a[1])["0"].a[1]) if p["ret"].k == "agg" else {}
        for side, fld, feefld in (("true", "long_token_output", "long_token_fees"), ("false", "short_token_output", "short_token_fees")):
            b = list(bad)
            out = rep.get(fld)
            fees = rep.get(feefld)
            if out is None or fees is None:
                res[side].append("report field missing")
                continue
            lf, lo = lin(fees), lin(out)
            idx = [i for i in range(2) if lf == H.Lin({"FEE%d.1" % i: 1})]
            if len(idx) != 1 or lo != H.Lin({"FEE%d.0" % idx[0]: 1}):
                b.append("report.%s / report.%s are not (.1, .0) of one fee step (%s, %s)" % (feefld, fld, lf.show()[:60], lo.show()[:60]))
            else:
                st = steps[idx[0]]
                if any(ev.pos[e["cs"].bb] < st["pos"] for e in eff if str(e["side"]) == side):
                    b.append("a pool effect precedes the fee step")
                got = tot.get(side, H.Lin())
                if got != lo.scale(-1):
                    b.append("Δliquidity+Δclaimable_fee = %s but -(output) = %s" % (got.show(), lo.scale(-1).show()))
            res[side].extend(b)
        extra = set(tot) - {"true", "false"}
        if extra:
            res["true"].append("non-constant side %s" % sorted(extra))
    ctx.ob("conserve:withdraw:charge_fees", not bad_fee and len(ps) > 0,
           "Withdrawal::execute charges fees once per token with BalanceChange::Worsened; (amount_after_fees, fees) are (.0, .1) of one apply_fees(swap_fee_params, ..) "
           "call each (%s)%s" % (sorted(forms), "; VIOLATED: %s" % sorted(set(bad_fee))[:2] if bad_fee else ""), where=f.where())
    for side, nm in (("true", "long"), ("false", "short")):
        ctx.ob("conserve:withdraw:" + nm, not res[side] and not bad_fee and len(ps) > 0,
               "Withdrawal::execute: Δliquidity[%s]+Δclaimable_fee[%s] = -(reported %s_token_output) — the pool loses output + fee_for_receiver, the receiver part "
               "is credited to claimable fees, the pool part stays in the pool%s" % (nm, nm, nm, "; VIOLATED: %s" % sorted(set(res[side]))[:2] if res[side] else ""),
               where=f.where())


# ------------------------------------------------------------------------------------------------ fee decomposition

def _liq_case(case):
    def ch(path):
        for c, l, t in path["conds"]:
            if re.match(r"^discr\(PositionFees::liquidation_fees\(", str(c)):
                return (l == 1) == (case == "liquidation")
        return None
    return ch


def _fee_decomposition(ctx, prog):
    fns = {}
    for nm in ("for_receiver", "for_pool", "total_cost_amount"):
        fns[nm] = ctx.fn(r"gmsol_model::params::fee::PositionFees::<T>::%s" % nm)
    if any(v is None for v in fns.values()):
        return
    for case in ("liquidation", "no-liquidation"):
        v = {}
        for nm, f in fns.items():
            ps = H.success_paths(f, kinds=("ok", "unknown"))
            v[nm] = H.sym_lin(prog, ps[0]["ret"], {}, _liq_case(case)) if len(ps) == 1 else None
        ok = all(x is not None for x in v.values()) and \
            v["total_cost_amount"] == v["for_receiver"].add(v["for_pool"]).add(H.Lin({"self.funding.amount": 1})) and len(v["total_cost_amount"]) >= 4
        ctx.ob("conserve:fees:decomposition:" + case, ok,
               "PositionFees (%s): total_cost_amount = for_receiver + for_pool + funding.amount as linear forms over the fee fields "
               "(total = %s)" % (case, v["total_cost_amount"].show() if v["total_cost_amount"] is not None else None), where=fns["total_cost_amount"].where())


# ------------------------------------------------------------------------------------------------ (c) increase

def _increase(ctx, prog):
    # anchored on the public entry; the private helper process_collateral is expanded (or may be inlined) — see h_B.events
    f = ctx.fn(r"IncreasePosition<P, DECIMALS> as gmsol_model::action::MarketAction>::execute")
    if f is None:
        return
    ps = H.success_paths(f)
    ctx.floor("conserve:increase:paths", len(ps), 1)
    SIDE = r"^Position::is_collateral_token_long\(self\.position\)$"
    bad_c, bad_o = [], []
    for p in ps:
        eff = H.pool_effects(f, p)
        fees_calls = H.deep_calls(f, p, r"^PositionExt::position_fees$")
        if len(fees_calls) != 1:
            bad_c.append("position_fees called %d times" % len(fees_calls))
            continue
        FE = H._render(fees_calls[0]["value"], {})
        for case in ("liquidation", "no-liquidation"):
            lin = lambda e: H.sym_lin(prog, e, {}, _liq_case(case))
            tot, bad = H.ledger(eff, SIDE, lin, TOKEN_POOLS)
            bad_c.extend(bad)
            want = H.Lin({"self.params.collateral_increment_amount": 1, FE + ".funding.amount": -1})
            got = tot.get("S", H.Lin())
            if got != want:
                bad_c.append("[%s] sum %s != %s" % (case, got.show()[:200], want.show()[:120]))
            if set(tot) - {"S"}:
                bad_o.append("effects on sides %s" % sorted(set(tot) - {"S"}))
        pools = sorted(set(e["pool"] or "?" for e in eff))
        if pools != ["claimable_fee", "collateral_sum", "liquidity"]:
            bad_c.append("pools touched %s" % pools)
    ctx.ob("conserve:increase:collateral-side", not bad_c and len(ps) > 0,
           "IncreasePosition::execute (%d success paths, private helpers expanded): Δcollateral_sum+Δclaimable_fee+Δliquidity on the collateral token = "
           "collateral_increment_amount − fees.funding.amount (fees move collateral → pool/claimable; the funding fee paid is credited to no pool: it backs "
           "claimable funding); the position impact pool (index-token ledger) is not part of this identity%s" % (
               len(ps), "; VIOLATED: %s" % sorted(set(bad_c))[:2] if bad_c else ""), where=f.where())
    ctx.ob("conserve:increase:other-side", not bad_o and len(ps) > 0, "no delta is applied to the other token%s" % ("; %s" % bad_o[:1] if bad_o else ""), where=f.where())


# ------------------------------------------------------------------------------------------------ (d) decrease: the transfers that are linear

def _decrease(ctx, prog):
    # 1. do_pay_for_cost: what is paid leaves output / collateral / secondary output
    f = ctx.fn(r"collateral_processor::State::<T>::do_pay_for_cost")
    if f is not None:
        ps = H.success_paths(f, track_places=True)
        ctx.floor("conserve:decrease:do_pay_for_cost:paths", len(ps), 12)
        res = set()
        for p in ps:
            fin = {}
            for st in H.stores_on_path(f, p):
                m = re.match(r"^self\.(\w+)$", str(st["dest"]))
                if m:
                    fin[m.group(1)] = H.lin_of(st["value"])
            try:
                t = dict(dict(p["ret"].a[1])["0"].a[1])
                pc, psec = H.lin_of(t["0"]), H.lin_of(t["1"])
            except Exception:
                res.add(("?", "?"))
                continue
            d = lambda n: fin.get(n, H.Lin({"self." + n: 1})).add(H.Lin({"self." + n: 1}), -1)
            a = d("output_amount").add(d("remaining_collateral_amount")).add(pc)
            b = d("secondary_output_amount").add(psec)
            res.add((a.show(), b.show()))
            if set(fin) - {"output_amount", "remaining_collateral_amount", "secondary_output_amount"}:
                res.add(("writes " + ",".join(sorted(fin)), ""))
        ctx.ob("conserve:decrease:do_pay_for_cost", res == {("0", "0")},
               "do_pay_for_cost, %d success paths: Δoutput_amount + Δremaining_collateral_amount = −paid_in_collateral and Δsecondary_output_amount = −paid_in_secondary "
               "(residuals: %s)" % (len(ps), sorted(res)[:3]), where=f.where())
    # 2. add_pnl_token_amount
    f = ctx.fn(r"CollateralProcessor::<'a, M, DECIMALS>::add_pnl_token_amount")
    if f is not None:
        ps = H.success_paths(f, track_places=True)
        tab = {}
        for p in ps:
            t = H.path_truth(p, r"are_pnl_and_output_tokens_the_same\(self\.state\)$")
            ch = {}
            for st in H.stores_on_path(f, p):
                m = re.match(r"^self\.state\.(\w+)$", str(st["dest"]))
                if m:
                    ch[m.group(1)] = H.lin_of(st["value"]).add(H.Lin({"self.state." + m.group(1): 1}), -1).show()
            tab[t] = ch
        ctx.ob("conserve:decrease:add_pnl_token_amount", tab == {True: {"output_amount": "+deduction_amount_for_pool"}, False: {"secondary_output_amount": "+deduction_amount_for_pool"}},
               "add_pnl_token_amount(d): output_amount += d when pnl and output tokens coincide, else secondary_output_amount += d: %s" % tab, where=f.where())
    # 3. profit taken out of the pool is what is added to the outputs
    for nm, cond_re in (("add_pnl_if_positive", r"^Signed::is_positive\(pnl\)$"), ("add_price_impact_if_positive", r"^Signed::is_positive\(price_impact\)$")):
        f = ctx.fn(r"Context::<'_, '_, M, DECIMALS>::%s" % nm)
        if f is None:
            continue
        ps = H.success_paths(f)
        bad = []
        n = 0
        for p in ps:
            t = H.path_truth(p, cond_re)
            eff = [e for e in H.pool_effects(f, p)]
            add = H.deep_calls(f, p, r"^CollateralProcessor::add_pnl_token_amount$")
            if not t:
                if eff or add:
                    bad.append("effects without positive value")
                continue
            n += 1
            if len(eff) != 1 or eff[0]["pool"] != "liquidity" or len(add) != 1:
                bad.append("effects %s, add_pnl_token_amount x%d" % ([e["pool"] for e in eff], len(add)))
                continue
            if not re.match(r"^self(\.processor)?\.state\.is_pnl_token_long$", str(eff[0]["side"])):
                bad.append("side %s" % eff[0]["side"])
            credited = H.lin_of(add[0]["args"][1])
            debited = H.lin_of(eff[0]["amount"])
            if debited.add(credited) or len(credited) != 1:
                bad.append("pool delta %s vs amount added to the outputs %s" % (debited.show(), credited.show()))
        ctx.ob("conserve:decrease:" + nm, not bad and n >= 1,
               "%s: liquidity[pnl token] −= d and add_pnl_token_amount(d) with the same atom d (%d positive path(s))%s" % (nm, n, "; VIOLATED: %s" % bad[:2] if bad else ""),
               where=f.where())
    # 4. pay_to_primary_pool and the closures that route payments to the pool
    f = ctx.fn(r"CollateralProcessor::<'a, M, DECIMALS>::pay_to_primary_pool")
    if f is not None:
        ps = H.success_paths(f)
        bad = []
        for p in ps:
            zc = H.path_truth(p, r"^Zero::is_zero\(collateral_token_amount\)$")
            zs = H.path_truth(p, r"^Zero::is_zero\(secondary_output_token_amount\)$")
            got = sorted((str(e["side"]), H.lin_of(e["amount"]).show(), e["pool"]) for e in H.pool_effects(f, p))
            want = []
            if zc is False:
                want.append(("self.state.is_output_token_long", "+collateral_token_amount", "liquidity"))
            if zs is False:
                want.append(("self.state.is_pnl_token_long", "+secondary_output_token_amount", "liquidity"))
            if got != sorted(want) or zc is None or zs is None:
                bad.append("%s (zero tests %s,%s)" % (got, zc, zs))
        ctx.ob("conserve:decrease:pay_to_primary_pool", not bad and len(ps) == 4,
               "pay_to_primary_pool(c, s): liquidity[output token] += c and liquidity[pnl token] += s, each iff non-zero (%d paths)%s" % (len(ps), "; %s" % bad[:2] if bad else ""),
               where=f.where())
    n_cl = 0
    bad = []
    for nm in ("pay_for_pnl_if_negative", "pay_for_price_impact_if_negative", "pay_for_fees_excluding_funding"):
        g = ctx.fn(r"Context::<'_, '_, M, DECIMALS>::%s" % nm)
        if g is None:
            continue
        for cl in prog.closures_of(g):
            for c in cl.calls:
                if c.short == "CollateralProcessor::pay_to_primary_pool":
                    n_cl += 1
                    a = [H.lin_of(c.arg_expr(i)).show() for i in (1, 2)]
                    if a != ["+paid_in_collateral_amount", "+paid_in_secondary_output_amount"] or str(c.arg_expr(0)) != "processor":
                        bad.append("%s: pay_to_primary_pool(%s)" % (nm, a))
    ctx.ob("conserve:decrease:paid-to-pool", not bad and n_cl >= 3,
           "the receivers of pnl / price-impact / (under-paid) fee costs credit exactly (paid_in_collateral_amount, paid_in_secondary_output_amount) to the pool (%d sites)%s" % (
               n_cl, "; %s" % bad[:2] if bad else ""), where="crates/model/src/action/decrease_position/collateral_processor.rs")
    # 5. withdrawable collateral moves from remaining collateral to the output
    g = ctx.fn(r"DecreasePosition::<P, DECIMALS>::process_collateral")
    if g is not None:
        ps = H.success_paths(g)
        res = set()
        for p in ps:
            ch = {}
            for st in H.stores_on_path(g, p):
                m = re.match(r".*\.(remaining_collateral_amount|output_amount|secondary_output_amount)$", str(st["dest"]))
                if m and "process(" in str(st["dest"]):
                    ch.setdefault(m.group(1), []).append(st)
            tot = H.Lin()
            for fld, sts in ch.items():
                v = H.lin_of(sts[-1]["value"])
                old = [a for a in v if a.endswith("." + fld)]
                tot = tot.add(v)
                for a in old:
                    tot = tot.add(H.Lin({a: 1}), -1)
            res.add((tuple(sorted(ch)), tot.show()))
        okset = {((), "0"), (("output_amount", "remaining_collateral_amount"), "0")}
        ctx.ob("conserve:decrease:withdrawable", res <= okset and len(res) == 2,
               "DecreasePosition::process_collateral: the withdrawable amount is subtracted from remaining_collateral_amount and added to output_amount "
               "(same atom) or nothing is moved: %s" % sorted(res), where=g.where())
