"""Check context: obligations, violations, floors, known findings, evidence."""
import json
import os
import time
import traceback

from . import facts as _facts
from .model import AnchorMissing, Program

VERIF = _facts.VERIF
KNOWN = os.path.join(VERIF, "known-findings.json")

_PROG_CACHE = {}


class Ctx:
    def __init__(self, prop, tier="quick", seed=0, facts_dir=None, scratch=False):
        self.facts_dir = facts_dir
        self.scratch = scratch
        self.prop = prop
        self.tier = tier
        self.seed = seed
        self.t0 = time.time()
        self.obligations = []      # dicts
        self.violations = []       # dicts (not known)
        self.known_hits = []       # dicts
        self.notes = []
        self.analysed_fns = set()
        self.analysed_crates = set()
        self.rules = []
        self.explanation = ""
        self.not_decided = ""
        self.trusted = ["rustc nightly front end / MIR construction (facts are the compiler's own view of /repo)",
                        "gmxsa driver serialisation and Python rule engine"]
        self.assumptions = []
        try:
            self.known = json.load(open(KNOWN))
        except Exception:
            self.known = {"findings": [], "fixed": []}
        self._known_keys = {(k["property"], k["key"]): k for k in self.known.get("findings", [])}
        self._prog = None

    # ---------------------------------------------------------------- program access
    def prog(self, crates=None):
        key = tuple(sorted(crates or _facts.EXPECTED_CRATES))
        ckey = (self.facts_dir, key)
        if ckey not in _PROG_CACHE:
            _PROG_CACHE[ckey] = Program(list(key), facts_dir=self.facts_dir)
        p = _PROG_CACHE[ckey]
        self.analysed_crates.update(key)
        self._prog = p
        return p

    def rule(self, rid, text):
        """Declare a rule (for the evidence)."""
        self.rules.append({"id": rid, "rule": text})

    # ---------------------------------------------------------------- anchors
    def fn(self, pattern, prog=None, crate=None):
        p = prog or self._prog
        try:
            f = p.fn(pattern, crate)
            self.analysed_fns.add(f.id)
            rp = f.reassigned_params()
            if rp:
                self.note("%s re-assigns parameter(s) %s: `expr` of those renders the incoming value only" % (f.short, rp))
            return f
        except AnchorMissing as e:
            self.ob("anchor-missing:fn:" + pattern, False, "anchor not found: %s" % e, where="(anchor)")
            return None

    def fns(self, pattern, prog=None, crate=None, floor=1):
        p = prog or self._prog
        fs = p.find_fns(pattern, crate)
        for f in fs:
            self.analysed_fns.add(f.id)
        if len(fs) < floor:
            self.ob("anchor-missing:fns:" + pattern, False,
                    "expected >= %d functions matching /%s/, found %d" % (floor, pattern, len(fs)), where="(anchor)")
        return fs

    def adt(self, pattern, prog=None):
        p = prog or self._prog
        try:
            return p.adt(pattern)
        except AnchorMissing as e:
            self.ob("anchor-missing:adt:" + pattern, False, "anchor not found: %s" % e, where="(anchor)")
            return None

    def const(self, pattern, prog=None):
        p = prog or self._prog
        try:
            return p.const(pattern)
        except AnchorMissing as e:
            self.ob("anchor-missing:const:" + pattern, False, "anchor not found: %s" % e, where="(anchor)")
            return None

    # ---------------------------------------------------------------- obligations
    def ob(self, key, ok, msg, where="", detail=None, nontrivial=True):
        """Record one evaluated obligation. key: stable id without line numbers."""
        rec = {"key": key, "ok": bool(ok), "msg": msg, "where": where, "nontrivial": bool(nontrivial)}
        if detail is not None:
            rec["detail"] = detail if isinstance(detail, (str, int, float, list, dict)) else str(detail)
        self.obligations.append(rec)
        if not ok:
            kf = self._known_keys.get((self.prop, key))
            if kf is not None:
                self.known_hits.append(dict(rec, what=kf.get("what", msg)))
            else:
                self.violations.append(rec)
        return bool(ok)

    def floor(self, name, count, minimum):
        return self.ob("floor:" + name, count >= minimum,
                       "rule `%s` matched %d instances, floor (counted on the pinned tree) is %d — a rule "
                       "matching fewer sites would pass vacuously" % (name, count, minimum),
                       where="(floor)", detail={"count": count, "floor": minimum}, nontrivial=False)

    def guard(self, key, fnc, *a, **kw):
        """Run a sub-rule; an AnchorMissing or internal error inside becomes a violation (fail closed)."""
        try:
            return fnc(*a, **kw)
        except AnchorMissing as e:
            self.ob("anchor-missing:" + key, False, "anchor not found: %s" % e, where="(anchor)")
        except Exception as e:  # fail closed, but diagnosable
            tb = traceback.format_exc().splitlines()[-6:]
            self.ob("rule-error:" + key, False, "rule crashed (fail closed): %r" % e, where="(engine)", detail=tb)
        return None

    def note(self, s):
        self.notes.append(s)

    def _rule_counts(self):
        out = {}
        for o in self.obligations:
            r = o["key"].split(":")[0]
            out[r] = out.get(r, 0) + 1
        return out

    # ---------------------------------------------------------------- finish
    def finish(self):
        wall = time.time() - self.t0
        evid_dir = os.path.join(VERIF, "evidence")
        if os.path.realpath(_facts.REPO) != "/repo":
            # scratch trees (positive controls, mutation trials) never overwrite the real evidence
            evid_dir = os.path.join(_facts.CACHE, "evidence-scratch")
        os.makedirs(evid_dir, exist_ok=True)
        nontriv = {o["key"] for o in self.obligations if o["nontrivial"] and not o["key"].startswith(("floor:", "anchor-missing"))}
        samples = []
        seen_rules = set()
        for o in self.obligations:
            r = o["key"].split(":")[0]
            if o["ok"] and o["nontrivial"] and (r not in seen_rules or len(samples) < 6) and len(samples) < 14:
                seen_rules.add(r)
                samples.append({k: o[k] for k in ("key", "msg", "where", "detail") if k in o})
        if not samples:
            samples = [{k: o[k] for k in ("key", "msg", "where") if k in o} for o in self.obligations[:5]] or [{"note": "no obligations"}]
        ev = {
            "property_id": self.prop,
            "tier": self.tier,
            "seed": self.seed,
            "level": "other",
            "coverage": {
                "explanation": self.explanation,
                "not_decided": self.not_decided,
                "evaluations": len(self.obligations),
                "distinct_nontrivial": len(nontriv),
                "rule": "one evaluation = one rule instance (obligation) decided on the MIR/HIR facts of /repo's "
                        "current tree; non-trivial = the instance's anchor was found and the obligation inspected "
                        "at least one call site / branch / store; distinct by obligation key",
                "rules": self.rules,
                "rule_instances": self._rule_counts(),
                "samples": samples,
                "obligations": len(self.obligations),
                "discharged": sum(1 for o in self.obligations if o["ok"]),
                "functions_analysed": len(self.analysed_fns),
                "functions_analysed_sample": sorted(self.analysed_fns)[:25],
                "crates_loaded": sorted(self.analysed_crates),
                "known_findings_hit": [k["key"] for k in self.known_hits],
                "trusted_base": self.trusted,
                "exhaustive": False,
                "notes": self.notes[:40],
            },
            "assumptions": self.assumptions or ["Solana executes a transaction atomically; Anchor's generated account "
                                                "validation behaves as documented"],
            "wall_s": round(wall, 3),
            "violations": len(self.violations),
        }
        path = os.path.join(evid_dir, self.prop + ".json")
        tmp = path + ".tmp%d" % os.getpid()
        with open(tmp, "w") as fh:
            json.dump(ev, fh, indent=1)
        os.replace(tmp, path)
        print("[%s] tier=%s crates=%d functions=%d obligations=%d discharged=%d violations=%d known=%d wall=%.1fs" % (
            self.prop, self.tier, len(self.analysed_crates), len(self.analysed_fns), len(self.obligations),
            ev["coverage"]["discharged"], len(self.violations), len(self.known_hits), wall))
        for r in self.rules:
            n = sum(1 for o in self.obligations if o["key"].split(":")[0] == r["id"])
            print("  rule %-28s %3d instances  — %s" % (r["id"], n, r["rule"][:110]))
        for k in self.known_hits:
            print("KNOWN-FINDING: property=%s %s [%s]" % (self.prop, k["what"], k["key"]))
        if self.violations:
            rp = os.path.join(evid_dir, self.prop + ".replay.json")
            with open(rp, "w") as fh:
                json.dump({"property": self.prop, "tier": self.tier, "violations": self.violations}, fh, indent=1)
            for v in self.violations:
                print("  FAIL %s\n       at %s\n       %s" % (v["key"], v["where"], v["msg"]))
                if "detail" in v:
                    print("       detail: %s" % (json.dumps(v["detail"])[:600],))
            print("VIOLATION property=%s replay=%s" % (self.prop, rp))
            return 1
        return 0
