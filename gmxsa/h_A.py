"""Helpers of rule group A (pure model math: C01 C02 C03 C05 C06 C10 C11).

 paths / value_paths  — de-duplicated feasible decision-table paths with boolean conditions normalised
 retkind              — classify a returned expression: value | none | residual
 peel                 — strip Ok/Some wrappers, `?`, widening wrappers
 linform              — A11(b): integer linear form of an expression built from checked_add/checked_sub/neg
 weak_orders          — all total preorders of a few opaque values
 finite_eval          — A10: evaluate a decision table under a preorder + boolean valuation
 expr_at / arg_at     — value provenance from REACHING definitions at a program point (no path enumeration)
 paths_inlined        — decision table with a tail-called private helper's table substituted
 vcalls               — call sites of a function AND of the private helpers / local closures it enters (lazy, translated)
 inline_calls         — substitute single-path private helpers / closures inside an expression
"""
import itertools
import re

from . import analyses as A
from .model import E

# ----------------------------------------------------------------------------- paths


class Path:
    __slots__ = ("conds", "ret", "blocks", "calls", "diverges", "raw")

    def __init__(self, p):
        self.raw = p
        self.ret = p["ret"]
        self.blocks = p["blocks"]
        self.calls = p["calls"]
        self.diverges = p["diverges"]
        cs = []
        for cond, lab, ty in p["conds"]:
            if ty == "bool":
                truth = not (lab == 0)
                c = cond
                while c.k == "un" and c.a[0] == "Not":
                    c = c.a[1]
                    truth = not truth
                cs.append((c, truth))
            else:
                cs.append((cond, lab))
        self.conds = cs

    @classmethod
    def make(cls, conds, ret, blocks=(), calls=(), diverges=False):
        q = cls.__new__(cls)
        q.raw, q.conds, q.ret, q.blocks, q.calls, q.diverges = None, list(conds), ret, list(blocks), list(calls), diverges
        return q

    def key(self):
        return (tuple((str(c), str(l)) for c, l in self.conds), str(self.ret), self.diverges)

    def cond_strs(self):
        return ["%s=%s" % (c, l) for c, l in self.conds]

    def holds(self, cond_re, truth=True):
        """Path passed a boolean condition matching cond_re with the given truth."""
        return any(isinstance(l, bool) and l == truth and re.search(cond_re, str(c)) for c, l in self.conds)

    def mentions_cond(self, cond_re):
        return any(re.search(cond_re, str(c)) for c, l in self.conds)


def paths(fn, max_paths=4000):
    """Feasible, de-duplicated (by conditions+result) acyclic paths of fn."""
    out, seen = [], set()
    for p in A.decision_table(fn, max_paths=max_paths):
        if not A.feasible(p):
            continue
        q = Path(p)
        k = q.key()
        if k in seen:
            continue
        seen.add(k)
        out.append(q)
    return out


def _subst_params(g, args):
    names = {}
    for i in range(min(g.arg_count, len(args))):
        nm = g.locals[i + 1][1]
        if nm:
            names[nm] = args[i]
        names[("idx", i)] = args[i]

    def f(y):
        if y.k == "param":
            if y.a[1] and y.a[1] in names:
                return names[y.a[1]]
            if ("idx", y.a[0]) in names:
                return names[("idx", y.a[0])]
        return None
    return lambda e: rebuild(e, f)


def paths_inlined(prog, fn, inline_re, depth=2, max_paths=4000):
    """paths(fn) in which a TAIL call (the returned value, possibly under Ok(..)/`?`) to a local function whose def path
    matches inline_re is replaced by that function's own decision table: its path conditions and results with the
    parameters substituted by the caller's argument expressions. So a fact such as 'the sign of the result follows
    comparison X' is established the same way whether the selecting branch lives in fn or in a private helper it
    forwards to. Non-tail calls are left alone (they stay opaque atoms)."""
    out, seen = [], set()
    for p in paths(fn, max_paths=max_paths):
        for q in _expand_tail(prog, p, inline_re, depth, max_paths):
            k = q.key()
            if k not in seen:
                seen.add(k)
                out.append(q)
    return out


def _expand_tail(prog, p, inline_re, depth, max_paths):
    if depth <= 0 or p.diverges or p.ret is None:
        return [p]
    core = peel(p.ret)
    cs = callsite(core)
    if core.k != "call" or cs is None:
        return [p]
    gs = [g for g in prog.callees(cs) if re.search(inline_re, g.id)]
    if len(gs) != 1:
        return [p]
    g = gs[0]
    sub = _subst_params(g, list(core.a[1]))
    res = []
    for hp in paths_inlined(prog, g, inline_re, depth - 1, max_paths):
        if hp.diverges:
            continue
        conds = list(p.conds) + [(sub(c), l) for c, l in hp.conds]
        # drop combinations that contradict themselves on the same boolean condition
        seen_b, ok = {}, True
        for c, l in conds:
            if isinstance(l, bool):
                if seen_b.setdefault(str(c), l) != l:
                    ok = False
                    break
        if ok:
            res.append(Path.make(conds, sub(hp.ret), p.blocks, p.calls))
    return res or [p]


def retkind(e):
    """value | none | residual | diverge"""
    if e is None:
        return "diverge"
    if e.k == "call" and e.a[0] == "FromResidual::from_residual":
        return "residual"
    if e.k == "agg" and (e.a[0].endswith("::None") or e.a[0].endswith("::Err")):
        return "none"
    if e.k == "const" and re.search(r"\bNone\b", e.a[0]):
        return "none"
    return "value"


def value_paths(fn, **kw):
    return [p for p in paths(fn, **kw) if not p.diverges and retkind(p.ret) == "value"]


def none_paths(fn, **kw):
    return [p for p in paths(fn, **kw) if not p.diverges and retkind(p.ret) == "none"]


WRAP_AGG = re.compile(r"(^|::)(Some|Ok)$")


def peel(e, calls=()):
    """Strip Ok/Some constructors, `?`, and the given transparent unary calls (by short name)."""
    while True:
        if e.k == "agg" and WRAP_AGG.search(e.a[0]) and len(e.a[1]) == 1:
            e = e.a[1][0][1]
        elif e.k == "try":
            e = e.a[0]
        elif e.k == "call" and e.a[0] in calls and len(e.a[1]) >= 1:
            e = e.a[1][0]
        else:
            return e


def is_call(e, name_re):
    return e.k == "call" and re.search(name_re, e.a[0]) is not None


def call_args(e):
    return list(e.a[1])


def callsite(e):
    return e.a[2] if e.k == "call" and len(e.a) > 2 else None


# ----------------------------------------------------------------------------- linear forms (A11b)

ADD = re.compile(r"(^|::)(checked_add|Add::add|add)$")
SUB = re.compile(r"(^|::)(checked_sub|Sub::sub|sub)$")
NEG = re.compile(r"(^|::)(checked_neg|Neg::neg)$")
LIN_TRANSPARENT = ("Unsigned::to_signed", "Option::ok_or", "Option::ok_or_else", "Result::ok", "TryInto::try_into", "TryFrom::try_from",
                   "Result::map_err")


class NotLinear(Exception):
    pass


def linform(e, atom=None, transparent=LIN_TRANSPARENT, opp=("Unsigned::to_opposite_signed",)):
    """Integer linear combination of opaque atoms. `atom(e)` may name an expression (return str) to stop descent.
    checked_add/sub, +/-, checked_neg, `?`, Ok/Some, to_signed / to_opposite_signed are interpreted;
    phi raises NotLinear; anything else is an opaque atom named by its rendering."""
    def go(x):
        x = peel(x)
        if atom is not None:
            nm = atom(x)
            if nm is not None:
                return {nm: 1}
        if x.k == "phi":
            raise NotLinear("phi: %s" % x)
        if x.k == "bin" and x.a[0] in ("Add", "AddWithOverflow", "AddUnchecked"):
            return _comb(go(x.a[1]), go(x.a[2]), 1)
        if x.k == "bin" and x.a[0] in ("Sub", "SubWithOverflow", "SubUnchecked"):
            return _comb(go(x.a[1]), go(x.a[2]), -1)
        if x.k == "field" and x.a[1] == "0" and x.a[0].k == "bin" and x.a[0].a[0].endswith("WithOverflow"):
            return go(x.a[0])
        if x.k == "call":
            nm, args = x.a[0], x.a[1]
            if ADD.search(nm) and len(args) == 2:
                return _comb(go(args[0]), go(args[1]), 1)
            if SUB.search(nm) and len(args) == 2:
                return _comb(go(args[0]), go(args[1]), -1)
            if NEG.search(nm) and len(args) == 1:
                return _comb({}, go(args[0]), -1)
            if nm in opp and len(args) == 1:
                return _comb({}, go(args[0]), -1)
            if nm in transparent and len(args) >= 1:
                return go(args[0])
            if nm in ("One::one",):
                return {"1": 1}
            if nm in ("Zero::zero",):
                return {}
        if x.k == "const" and re.match(r"^-?\d+$", x.a[0]):
            v = int(x.a[0])
            return {"1": v} if v else {}
        return {str(x): 1}
    return {k: v for k, v in go(e).items() if v != 0}


def _comb(a, b, sign):
    out = dict(a)
    for k, v in b.items():
        out[k] = out.get(k, 0) + sign * v
    return out


# ----------------------------------------------------------------------------- finite-case evaluation (A10)


def weak_orders(names):
    """All total preorders (weak orderings) of names as dict name -> rank."""
    names = list(names)
    n = len(names)
    seen = set()
    for ranks in itertools.product(range(n), repeat=n):
        # canonical: ranks used must be 0..k contiguous
        used = sorted(set(ranks))
        if used != list(range(len(used))):
            continue
        if ranks in seen:
            continue
        seen.add(ranks)
        yield dict(zip(names, ranks))


CMPF = {"<": lambda a, b: a < b, "<=": lambda a, b: a <= b, ">": lambda a, b: a > b, ">=": lambda a, b: a >= b,
        "==": lambda a, b: a == b, "!=": lambda a, b: a != b}

ORDERING = {255: "Less", 0: "Equal", 1: "Greater", -1: "Less"}


class OutOfFragment(Exception):
    pass


def eval_cond(cond, lab, atomize, ranks, bools, ignore=None):
    """Truth of one path condition under (ranks, bools). Returns True/False, or None if the condition is
    to be ignored (matches `ignore`), else raises OutOfFragment."""
    s = str(cond)
    if ignore is not None and re.search(ignore, s):
        return None
    if isinstance(lab, bool):
        nm0 = atomize(cond)
        if nm0 is not None and nm0 in bools:
            return bools[nm0] == lab
        bv = eval_bool(cond, atomize, bools)
        if bv is not None:
            return bv == lab
        c = A.as_cmp(cond)
        if c is not None:
            op, a, b = c
            na, nb = atomize(a), atomize(b)
            if na is None or nb is None or na not in ranks or nb not in ranks:
                raise OutOfFragment("comparison on unknown operands: %s" % s)
            return CMPF[op](ranks[na], ranks[nb]) == lab
        nm = atomize(cond)
        if nm is not None and nm in bools:
            return bools[nm] == lab
        raise OutOfFragment("boolean condition outside the fragment: %s" % s)
    # discriminant of Ord::cmp
    if cond.k == "discr" and cond.a[0].k == "call" and re.search(r"(^|::)(cmp|Ord::cmp)$", cond.a[0].a[0]):
        a, b = cond.a[0].a[1][0], cond.a[0].a[1][1]
        na, nb = atomize(a), atomize(b)
        if na is None or nb is None or na not in ranks or nb not in ranks:
            raise OutOfFragment("cmp on unknown operands: %s" % s)
        actual = "Less" if ranks[na] < ranks[nb] else ("Equal" if ranks[na] == ranks[nb] else "Greater")
        if isinstance(lab, tuple):
            return actual not in [ORDERING.get(v) for v in lab[1]]
        return ORDERING.get(lab) == actual
    # Option discriminant used as a boolean (`let Some(x) = .. else`): atomize(cond) names a bool, Some(=1) is True
    if cond.k == "discr":
        nm = atomize(cond)
        if nm is not None and nm in bools:
            if isinstance(lab, tuple):
                # `otherwise` edge: Some only if the None value (0) is among the excluded ones and Some (1) is not
                is_some = (0 in lab[1]) and (1 not in lab[1])
            else:
                is_some = (lab == 1)
            return bools[nm] == is_some
    raise OutOfFragment("condition outside the fragment: %s" % s)


def finite_eval(fn, atomize, names, bools=(), ignore=None, constraint=None, max_paths=4000, prog=None, inline=None):
    """For every weak order of `names` and valuation of `bools` (satisfying `constraint(ranks, bools)`), the list of
    paths whose conditions all hold. Yields (ranks, boolvals, [Path]). With prog+inline (regex on def paths) tail calls
    to matching local helpers are expanded into the helper's own paths (see paths_inlined)."""
    src = paths_inlined(prog, fn, inline, max_paths=max_paths) if (prog is not None and inline) else paths(fn, max_paths=max_paths)
    ps = [p for p in src if not p.diverges]
    for ranks in weak_orders(names):
        for bv in itertools.product([False, True], repeat=len(bools)):
            bd = dict(zip(bools, bv))
            if constraint is not None and not constraint(ranks, bd):
                continue
            sel = []
            for p in ps:
                ok = True
                for c, l in p.conds:
                    r = eval_cond(c, l, atomize, ranks, bd, ignore)
                    if r is False:
                        ok = False
                        break
                if ok:
                    sel.append(p)
            yield ranks, bd, sel


# ----------------------------------------------------------------------------- misc


def arg_bool(cs, i):
    return A.bool_shape(cs.arg_expr(i))


FLOOR = "floor"
CEIL = "ceil"
AWAY = "away"
PRIMS = [
    (re.compile(r"(^|::)checked_mul_div_ceil$"), CEIL),
    (re.compile(r"(^|::)checked_round_up_div$"), CEIL),
    (re.compile(r"(^|::)div_ceil$"), CEIL),
    (re.compile(r"(^|::)as_divisor_to_round_up_magnitude_div$"), AWAY),
    (re.compile(r"(^|::)checked_mul_div$"), FLOOR),
    (re.compile(r"(^|::)checked_mul_div_with_signed_numerator$"), FLOOR),
    (re.compile(r"(^|::)(checked_div|Div::div)$"), FLOOR),
]


def prim_class(name):
    for rx, k in PRIMS:
        if rx.search(name or ""):
            return k
    return None


def call_prims(fn, blocks=None):
    """(CallSite, class) for every rounding primitive called directly in fn (optionally restricted to blocks)."""
    out = []
    for cs in fn.calls:
        if blocks is not None and cs.bb not in blocks:
            continue
        k = prim_class(cs.callee) or prim_class(cs.resolved)
        if k:
            out.append((cs, k))
    return out


def raw_div_sites(fn):
    return [s for s in A.arith_sites(fn) if s["op"] in ("Div", "Rem")]


def only_edge_blocks(fn, cond_re, truth):
    """Blocks that can be reached only through the `truth` edge of a bool switch whose condition matches cond_re."""
    out = set()
    for bb in range(len(fn.blocks)):
        if fn.blocks[bb].get("cleanup"):
            continue
        for c, t in fn.bool_guards(bb):
            tt = t
            cc = c
            while cc.k == "un" and cc.a[0] == "Not":
                cc = cc.a[1]
                tt = not tt
            if tt == truth and re.search(cond_re, str(cc)):
                out.add(bb)
                break
    return out


def short_ids(fns):
    return sorted(f.short for f in fns)


# ----------------------------------------------------------------------------- expression rewriting


def rebuild(e, f):
    """Bottom-up copy of e in which every sub-expression x with f(x) != None is replaced by f(x) (no descent below it)."""
    r = f(e)
    if r is not None:
        return r
    k, a = e.k, e.a
    rb = lambda x: rebuild(x, f)
    if k in ("field", "variant", "cast"):
        return E(k, rb(a[0]), a[1])
    if k in ("try", "discr", "len", "trybranch"):
        return E(k, rb(a[0]))
    if k == "index":
        return E(k, rb(a[0]), rb(a[1]) if isinstance(a[1], E) else a[1])
    if k == "call":
        return E(k, a[0], tuple(rb(x) for x in a[1]), *a[2:])
    if k == "bin":
        return E(k, a[0], rb(a[1]), rb(a[2]))
    if k == "un":
        return E(k, a[0], rb(a[1]))
    if k == "agg":
        return E(k, a[0], tuple((n, rb(v)) for n, v in a[1]))
    if k == "phi":
        return E(k, tuple(rb(x) for x in a[0]))
    if k == "closure":
        return E(k, a[0], tuple(rb(x) for x in a[1]), *a[2:])
    return e


def named(name):
    """An opaque named atom."""
    return E("const", name, {})


def abbreviate(e, table):
    """Replace sub-expressions by named atoms. table: list of (predicate(E)->bool | regex on str(E), name)."""
    def f(x):
        for pred, nm in table:
            if callable(pred):
                if pred(x):
                    return named(nm)
            elif x.k in ("call", "field", "try") and re.search(pred, str(x)):
                return named(nm)
        return None
    return rebuild(e, f)


def inline_closures(prog, e, depth=0):
    """Rewrite Option::and_then(X, closure) / Option::map(X, closure) / Result::map(..) into the closure's value expression with its
    parameter replaced by X (peeled of `?`) and captured variables by the captured expressions. Closures with more than one value
    path are left alone."""
    if depth > 6:
        return e

    def f(x):
        if x.k == "call" and x.a[0] in ("Option::and_then", "Option::map", "Result::map", "Result::and_then") and len(x.a[1]) == 2 \
                and x.a[1][1].k == "closure":
            clo = x.a[1][1]
            body = prog.fns.get(clo.a[0])
            if body is None:
                return None
            vps = [p for p in paths(body) if not p.diverges and retkind(p.ret) == "value"]
            if len(vps) != 1:
                return None
            arg = inline_closures(prog, x.a[1][0], depth + 1)
            caps = dict(zip(clo.a[2], clo.a[1])) if len(clo.a) > 2 else {}
            pname = body.locals[2][1] if body.arg_count >= 2 else None

            def g(y):
                if y.k == "upvar" and y.a[0] in caps:
                    return inline_closures(prog, caps[y.a[0]], depth + 1)
                if y.k == "param" and pname is not None and str(y) == pname:
                    return arg
                return None
            return inline_closures(prog, rebuild(peel(vps[0].ret), g), depth + 1)
        return None
    return rebuild(e, f)


# ----------------------------------------------------------------------------- reaching-definition expressions


def expr_at(fn, op, bb, _depth=0, _stack=()):
    """Value provenance of operand `op` as used by the TERMINATOR of block bb, built from the definitions that REACH that use
    (classic reaching definitions on the normal CFG; a whole-local definition kills earlier ones). Unlike Fn.expr (flow-insensitive:
    phi of every definition in the body) a mutable local re-assigned in another branch does not pollute the result; unlike
    expr_on_path no path enumeration is needed. Several reaching definitions give a phi."""
    if isinstance(op, dict):
        return fn._const_expr(op)
    n = op[0]
    projs = list(op[1:])
    if 0 < n <= fn.arg_count or _depth > 60:
        e = fn.local_expr(n)
        for p in projs:
            e = fn._project(e, p)
        return e
    alld = fn.defs().get(n, [])
    whole = [d for d in alld if d[2] == ()]
    if not whole or (n, bb) in _stack:
        return fn.expr(op)
    def_blocks = set(d[0] for d in whole)
    reaching = []
    # a statement definition in bb itself (executed before the terminator) wins
    local = [d for d in whole if d[0] == bb and d[1] != "call"]
    if local:
        reaching = [max(local, key=lambda d: d[1])]
    else:
        for d in whole:
            others = def_blocks - {d[0]}
            srcs = [t for t, _ in fn.succ(d[0])]
            if d[0] == bb and d[1] == "call":
                continue  # defined by this very terminator: not visible to its own arguments unless via a loop (ignored)
            if bb in fn.reachable_from(srcs, avoid_blocks=tuple(sorted(others - {bb}))):
                # if bb holds another statement-def it would have been `local`; so reaching
                # several defs in the same block: keep the last one only
                reaching.append(d)
        byblock = {}
        for d in reaching:
            k = d[0]
            if k not in byblock or (d[1] == "call") or (byblock[k][1] != "call" and d[1] > byblock[k][1]):
                byblock[k] = d
        reaching = list(byblock.values())
    if not reaching:
        return fn.expr(op)
    alts = []
    for (dbb, si, _p, rv) in reaching:
        alts.append(_rv_at(fn, rv, dbb, _depth + 1, _stack + ((n, bb),)))
    uniq, seen = [], set()
    for a in alts:
        s = str(a)
        if s not in seen:
            seen.add(s)
            uniq.append(a)
    e = uniq[0] if len(uniq) == 1 else E("phi", tuple(uniq))
    for p in projs:
        e = fn._project(e, p)
    return e


def _rv_at(fn, rv, bb, depth, stack):
    from .model import CallSite, TRANSPARENT_CALLS, short_path
    sub = lambda o: expr_at(fn, o, bb, depth, stack)
    if isinstance(rv, CallSite):
        args = tuple(sub(a) for a in rv.args)
        name = rv.short
        if name in TRANSPARENT_CALLS and len(args) == 1:
            return args[0]
        if name == "Try::branch" and len(args) == 1:
            return E("trybranch", args[0])
        return E("call", name, args, rv)
    k = rv[0]
    if k == "use":
        return sub(rv[1])
    if k in ("ref", "rawptr"):
        return sub(rv[2])
    if k == "bin":
        return E("bin", rv[1], sub(rv[2]), sub(rv[3]))
    if k == "un":
        return E("un", rv[1], sub(rv[2]))
    if k == "cast":
        inner = sub(rv[2])
        if rv[1].startswith("PointerCoercion") or rv[1] in ("PtrToPtr", "Transmute"):
            return inner
        return E("cast", inner, short_path(rv[3], 1))
    if k == "discr":
        return E("discr", sub(rv[1]))
    if k == "agg" and rv[1] == "adt":
        names = rv[3]
        adt = short_path(rv[2], 1)
        nm = adt if names[0] == adt else "%s::%s" % (adt, names[0])
        return E("agg", nm, tuple((names[1:][i] if i < len(names) - 1 else str(i), sub(o)) for i, o in enumerate(rv[4])))
    if k == "agg" and rv[1] != "closure":
        return E("agg", rv[1], tuple((str(i), sub(o)) for i, o in enumerate(rv[4])))
    return fn._rvalue_expr(rv, 0, ())


def arg_at(cs, i):
    """Reaching-definition expression of argument i of a call site."""
    return expr_at(cs.fn, cs.args[i], cs.bb)


def ret_at(fn, bb):
    """Reaching-definition expression of the value assigned to the return place in block bb (bb assigns _0 by statement or call)."""
    for (dbb, si, proj, rv) in fn.defs().get(0, []):
        if dbb == bb and proj == ():
            return _rv_at(fn, rv, bb, 0, ())
    return None


def expand_phi(e, limit=64):
    """All phi-free variants of e (cartesian product over phi nodes, capped)."""
    out = [e]
    changed = True
    while changed:
        changed = False
        nxt = []
        for x in out:
            tgt = None
            for y in x.walk():
                if y.k == "phi":
                    tgt = y
                    break
            if tgt is None:
                nxt.append(x)
                continue
            changed = True
            for alt in tgt.a[0]:
                nxt.append(rebuild(x, lambda z, t=tgt, a=alt: a if z is t else None))
            if len(nxt) > limit:
                raise NotLinear("too many phi alternatives")
        out = nxt
    return out


def linforms(e, atom=None, **kw):
    """Set of linear forms of e, one per phi alternative (as sorted item tuples)."""
    out = set()
    for x in expand_phi(e):
        out.add(tuple(sorted(linform(x, atom, **kw).items())))
    return out


def eval_bool(e, atomize, bools):
    """Value of a boolean expression built from named boolean atoms with Not / ^ / & / | / == / != ; None if not of that form."""
    nm = atomize(e)
    if nm is not None and nm in bools:
        return bools[nm]
    if e.k == "const" and e.a[0] in ("true", "false"):
        return e.a[0] == "true"
    if e.k == "un" and e.a[0] == "Not":
        v = eval_bool(e.a[1], atomize, bools)
        return None if v is None else (not v)
    if e.k == "bin" and e.a[0] in ("BitXor", "BitAnd", "BitOr", "Eq", "Ne"):
        a, b = eval_bool(e.a[1], atomize, bools), eval_bool(e.a[2], atomize, bools)
        if a is None or b is None:
            return None
        return {"BitXor": a != b, "Ne": a != b, "Eq": a == b, "BitAnd": a and b, "BitOr": a or b}[e.a[0]]
    return None


def bool_guards_at(fn, bb):
    """Like Fn.bool_guards, but each condition is rebuilt from the definitions that reach ITS switch (expr_at), so a
    later re-assignment of a mutable local does not show up as a phi in an earlier guard."""
    out = []
    for s, _cond, allowed, labels in fn.guards(bb):
        t = fn.blocks[s]["t"]
        if t[4] != "bool":
            continue
        cond = expr_at(fn, t[1], s)
        truth = None
        if allowed == frozenset([0]):
            truth = False
        elif allowed == frozenset(["otherwise"]):
            truth = True
        if truth is None:
            continue
        while cond.k == "un" and cond.a[0] == "Not":
            cond, truth = cond.a[1], not truth
        out.append((cond, truth))
    return out


# ----------------------------------------------------------------------------- private helpers / local closures (interprocedural views)

CLOSURE_CALLS = ("Fn::call", "FnMut::call_mut", "FnOnce::call_once")


def is_private_helper(g, root):
    """A body the analysed function may have been split into: a closure, or a non-public fn of the same crate."""
    if g.crate != root.crate:
        return False
    if "{closure" in g.id:
        return True
    return not str(g.vis or "").startswith("Public")


def _helper_target(prog, root, short, cs, args):
    """(body Fn, substitution E->E) for a call that enters a private helper or a local closure, else None."""
    if short in CLOSURE_CALLS and len(args) == 2 and args[0].k == "closure":
        clo = args[0]
        body = prog.fns.get(clo.a[0])
        if body is None or body.crate != root.crate:
            return None
        caps = dict(zip(clo.a[2], clo.a[1])) if len(clo.a) > 2 else {}
        tup = args[1]
        comps = [v for _, v in tup.a[1]] if tup.k == "agg" else []
        byidx = {i + 1: comps[i] for i in range(len(comps))}       # param index 0 is the closure environment

        def f(y):
            if y.k == "upvar" and y.a[0] in caps:
                return caps[y.a[0]]
            if y.k == "param" and y.a[0] in byidx:
                return byidx[y.a[0]]
            return None
        return body, (lambda e: rebuild(e, f))
    if cs is None:
        return None
    gs = [g for g in prog.callees(cs) if is_private_helper(g, root)]
    if len(gs) != 1 or gs[0].id == root.id:
        return None
    return gs[0], _subst_params(gs[0], list(args))


class VCall:
    """A call site seen from a root function: either one of its own calls or a call inside a private helper / local closure it
    enters (up to `depth` levels), with argument expressions and guards translated into the root's vocabulary.
    Arguments and guards are computed lazily (only rules' selected sites pay for expression reconstruction)."""
    __slots__ = ("cs", "chain", "_subs", "_args", "_guards")

    def __init__(self, cs, chain, subs):
        self.cs, self.chain, self._subs = cs, chain, subs      # subs: substitutions, innermost first
        self._args = {}
        self._guards = None

    @property
    def short(self):
        return self.cs.short

    @property
    def callee(self):
        return self.cs.callee

    @property
    def depth(self):
        return len(self.chain) - 1

    def _tr(self, e):
        for sub in self._subs:
            e = sub(e)
        return e

    def arg(self, i):
        if i not in self._args:
            self._args[i] = self._tr(arg_at(self.cs, i)) if 0 <= i < len(self.cs.args) else named("<no-arg>")
        return self._args[i]

    @property
    def args(self):
        return [self.arg(i) for i in range(len(self.cs.args))]

    @property
    def guards(self):
        if self._guards is None:
            out = []
            # guards at every level of the chain: level k is translated by the substitutions of the levels above it
            n = len(self.chain)
            for k, c in enumerate(self.chain):
                subs = self._subs[n - 1 - k:]
                for g, t in bool_guards_at(c.fn, c.bb):
                    for sub in subs:
                        g = sub(g)
                    out.append((g, t))
            self._guards = out
        return self._guards

    def guard(self, cond_re, tr=None):
        """truth of the first guard whose (optionally transformed) rendering matches cond_re, else None"""
        for g, t in self.guards:
            if re.search(cond_re, str(tr(g) if tr else g)):
                return t
        return None

    def where(self):
        return self.chain[0].where()


class _LazySub:
    """Substitution of a helper's parameters / a closure's captures by the caller's argument expressions, built on first use."""

    def __init__(self, prog, root, c):
        self.prog, self.root, self.c, self._f = prog, root, c, None

    def __call__(self, e):
        if self._f is None:
            args = [arg_at(self.c, i) for i in range(len(self.c.args))]
            tgt = _helper_target(self.prog, self.root, self.c.short, self.c, args)
            self._f = tgt[1] if tgt is not None else (lambda x: x)
        return self._f(e)


def _helper_body(prog, root, c):
    """Body entered by call site c of root (private helper or local closure), without building argument expressions unless needed."""
    if c.short in CLOSURE_CALLS and len(c.args) == 2:
        a0 = arg_at(c, 0)
        if a0.k == "closure":
            body = prog.fns.get(a0.a[0])
            return body if body is not None and body.crate == root.crate else None
        return None
    gs = [g for g in prog.callees(c) if is_private_helper(g, root)]
    if len(gs) != 1 or gs[0].id == root.id:
        return None
    return gs[0]


_VCALL_CACHE = {}


def vcalls(prog, f, depth=2):
    key = (id(prog), f.id, depth)
    if key in _VCALL_CACHE:
        return _VCALL_CACHE[key]
    out = []
    for c in f.calls:
        if f.blocks[c.bb].get("cleanup"):
            continue
        out.append(VCall(c, (c,), ()))
        if depth <= 0:
            continue
        g = _helper_body(prog, f, c)
        if g is None:
            continue
        sub = _LazySub(prog, f, c)
        for v in vcalls(prog, g, depth - 1):
            out.append(VCall(v.cs, (c,) + v.chain, v._subs + (sub,)))
    _VCALL_CACHE[key] = out
    return out


def _body_mentions(prog, g, want_re, depth):
    for c in g.calls:
        if re.search(want_re, c.short):
            return True
    if depth > 0:
        for c in g.calls:
            for h in prog.callees(c):
                if is_private_helper(h, g) and h.id != g.id and _body_mentions(prog, h, want_re, depth - 1):
                    return True
        for h in prog.closures_of(g):
            if _body_mentions(prog, h, want_re, depth - 1):
                return True
    return False


def inline_calls(prog, root, e, want_re, depth=2):
    """Replace, inside expression e (in root's vocabulary), every call that enters a private helper / local closure whose body
    (transitively, `depth` levels) contains a call matching want_re and which has exactly ONE value path, by that value
    expression with parameters / captures substituted. Calls to other helpers stay as they are."""
    if depth <= 0:
        return e
    memo = {}
    mention = {}

    def mentions(g):
        if g.id not in mention:
            mention[g.id] = _body_mentions(prog, g, want_re, depth - 1)
        return mention[g.id]

    def go(x):
        k = id(x)
        if k in memo:
            return memo[k]
        r = None
        if x.k == "call":
            cs = callsite(x)
            cand = x.a[0] in CLOSURE_CALLS or (cs is not None and any(is_private_helper(g, root) for g in prog.callees(cs)))
            if cand:
                args = [go(a) for a in x.a[1]]
                tgt = _helper_target(prog, root, x.a[0], cs, args)
                if tgt is not None:
                    g, sub = tgt
                    if mentions(g):
                        vps = [p for p in paths(g) if not p.diverges and retkind(p.ret) == "value"]
                        if len(vps) == 1:
                            r = inline_calls(prog, root, sub(vps[0].ret), want_re, depth - 1)
        if r is None:
            r = rebuild(x, lambda y: None if y is x else go(y))
        memo[k] = r
        return r
    return go(e)
