"""Helpers of rule group A (pure model math: C01 C02 C03 C05 C06 C10 C11).

 paths / value_paths  — de-duplicated feasible decision-table paths with boolean conditions normalised
 retkind              — classify a returned expression: value | none | residual
 peel                 — strip Ok/Some wrappers, `?`, widening wrappers
 linform              — A11(b): integer linear form of an expression built from checked_add/checked_sub/neg
 weak_orders          — all total preorders of a few opaque values
 finite_eval          — A10: evaluate a decision table under a preorder + boolean valuation
 arg_bool             — A6: shape of a boolean argument
 reach_prims          — A7: rounding primitives reached from a function through the local call graph
"""
import itertools
import re

from . import analyses as A
from .model import E

# ----------------------------------------------------------------------------- paths


class Path:
    __slots__ = ("conds", "ret", "blocks", "calls", "diverges", "raw")

    def __init__(self, p):
        self.raw = p
        self.ret = p["ret"]
        self.blocks = p["blocks"]
        self.calls = p["calls"]
        self.diverges = p["diverges"]
        cs = []
        for cond, lab, ty in p["conds"]:
            if ty == "bool":
                truth = not (lab == 0)
                c = cond
                while c.k == "un" and c.a[0] == "Not":
                    c = c.a[1]
                    truth = not truth
                cs.append((c, truth))
            else:
                cs.append((cond, lab))
        self.conds = cs

    def key(self):
        return (tuple((str(c), str(l)) for c, l in self.conds), str(self.ret), self.diverges)

    def cond_strs(self):
        return ["%s=%s" % (c, l) for c, l in self.conds]

    def holds(self, cond_re, truth=True):
        """Path passed a boolean condition matching cond_re with the given truth."""
        return any(isinstance(l, bool) and l == truth and re.search(cond_re, str(c)) for c, l in self.conds)

    def mentions_cond(self, cond_re):
        return any(re.search(cond_re, str(c)) for c, l in self.conds)


def paths(fn, max_paths=4000):
    """Feasible, de-duplicated (by conditions+result) acyclic paths of fn."""
    out, seen = [], set()
    for p in A.decision_table(fn, max_paths=max_paths):
        if not A.feasible(p):
            continue
        q = Path(p)
        k = q.key()
        if k in seen:
            continue
        seen.add(k)
        out.append(q)
    return out


def retkind(e):
    """value | none | residual | diverge"""
    if e is None:
        return "diverge"
    if e.k == "call" and e.a[0] == "FromResidual::from_residual":
        return "residual"
    if e.k == "agg" and (e.a[0].endswith("::None") or e.a[0].endswith("::Err")):
        return "none"
    if e.k == "const" and re.search(r"\bNone\b", e.a[0]):
        return "none"
    return "value"


def value_paths(fn, **kw):
    return [p for p in paths(fn, **kw) if not p.diverges and retkind(p.ret) == "value"]


def none_paths(fn, **kw):
    return [p for p in paths(fn, **kw) if not p.diverges and retkind(p.ret) == "none"]


WRAP_AGG = re.compile(r"(^|::)(Some|Ok)$")


def peel(e, calls=()):
    """Strip Ok/Some constructors, `?`, and the given transparent unary calls (by short name)."""
    while True:
        if e.k == "agg" and WRAP_AGG.search(e.a[0]) and len(e.a[1]) == 1:
            e = e.a[1][0][1]
        elif e.k == "try":
            e = e.a[0]
        elif e.k == "call" and e.a[0] in calls and len(e.a[1]) >= 1:
            e = e.a[1][0]
        else:
            return e


def is_call(e, name_re):
    return e.k == "call" and re.search(name_re, e.a[0]) is not None


def call_args(e):
    return list(e.a[1])


def callsite(e):
    return e.a[2] if e.k == "call" and len(e.a) > 2 else None


# ----------------------------------------------------------------------------- linear forms (A11b)

ADD = re.compile(r"(^|::)(checked_add|Add::add|add)$")
SUB = re.compile(r"(^|::)(checked_sub|Sub::sub|sub)$")
NEG = re.compile(r"(^|::)(checked_neg|Neg::neg)$")
LIN_TRANSPARENT = ("Unsigned::to_signed", "Option::ok_or", "Option::ok_or_else", "Result::ok", "TryInto::try_into", "TryFrom::try_from",
                   "Result::map_err")


class NotLinear(Exception):
    pass


def linform(e, atom=None, transparent=LIN_TRANSPARENT, opp=("Unsigned::to_opposite_signed",)):
    """Integer linear combination of opaque atoms. `atom(e)` may name an expression (return str) to stop descent.
    checked_add/sub, +/-, checked_neg, `?`, Ok/Some, to_signed / to_opposite_signed are interpreted;
    phi raises NotLinear; anything else is an opaque atom named by its rendering."""
    def go(x):
        x = peel(x)
        if atom is not None:
            nm = atom(x)
            if nm is not None:
                return {nm: 1}
        if x.k == "phi":
            raise NotLinear("phi: %s" % x)
        if x.k == "bin" and x.a[0] in ("Add", "AddWithOverflow", "AddUnchecked"):
            return _comb(go(x.a[1]), go(x.a[2]), 1)
        if x.k == "bin" and x.a[0] in ("Sub", "SubWithOverflow", "SubUnchecked"):
            return _comb(go(x.a[1]), go(x.a[2]), -1)
        if x.k == "field" and x.a[1] == "0" and x.a[0].k == "bin" and x.a[0].a[0].endswith("WithOverflow"):
            return go(x.a[0])
        if x.k == "call":
            nm, args = x.a[0], x.a[1]
            if ADD.search(nm) and len(args) == 2:
                return _comb(go(args[0]), go(args[1]), 1)
            if SUB.search(nm) and len(args) == 2:
                return _comb(go(args[0]), go(args[1]), -1)
            if NEG.search(nm) and len(args) == 1:
                return _comb({}, go(args[0]), -1)
            if nm in opp and len(args) == 1:
                return _comb({}, go(args[0]), -1)
            if nm in transparent and len(args) >= 1:
                return go(args[0])
            if nm in ("One::one",):
                return {"1": 1}
            if nm in ("Zero::zero",):
                return {}
        if x.k == "const" and re.match(r"^-?\d+$", x.a[0]):
            v = int(x.a[0])
            return {"1": v} if v else {}
        return {str(x): 1}
    return {k: v for k, v in go(e).items() if v != 0}


def _comb(a, b, sign):
    out = dict(a)
    for k, v in b.items():
        out[k] = out.get(k, 0) + sign * v
    return out


# ----------------------------------------------------------------------------- finite-case evaluation (A10)


def weak_orders(names):
    """All total preorders (weak orderings) of names as dict name -> rank."""
    names = list(names)
    n = len(names)
    seen = set()
    for ranks in itertools.product(range(n), repeat=n):
        # canonical: ranks used must be 0..k contiguous
        used = sorted(set(ranks))
        if used != list(range(len(used))):
            continue
        if ranks in seen:
            continue
        seen.add(ranks)
        yield dict(zip(names, ranks))


CMPF = {"<": lambda a, b: a < b, "<=": lambda a, b: a <= b, ">": lambda a, b: a > b, ">=": lambda a, b: a >= b,
        "==": lambda a, b: a == b, "!=": lambda a, b: a != b}

ORDERING = {255: "Less", 0: "Equal", 1: "Greater", -1: "Less"}


class OutOfFragment(Exception):
    pass


def eval_cond(cond, lab, atomize, ranks, bools, ignore=None):
    """Truth of one path condition under (ranks, bools). Returns True/False, or None if the condition is
    to be ignored (matches `ignore`), else raises OutOfFragment."""
    s = str(cond)
    if ignore is not None and re.search(ignore, s):
        return None
    if isinstance(lab, bool):
        c = A.as_cmp(cond)
        if c is not None:
            op, a, b = c
            na, nb = atomize(a), atomize(b)
            if na is None or nb is None or na not in ranks or nb not in ranks:
                raise OutOfFragment("comparison on unknown operands: %s" % s)
            return CMPF[op](ranks[na], ranks[nb]) == lab
        nm = atomize(cond)
        if nm is not None and nm in bools:
            return bools[nm] == lab
        raise OutOfFragment("boolean condition outside the fragment: %s" % s)
    # discriminant of Ord::cmp
    if cond.k == "discr" and cond.a[0].k == "call" and re.search(r"(^|::)(cmp|Ord::cmp)$", cond.a[0].a[0]):
        a, b = cond.a[0].a[1][0], cond.a[0].a[1][1]
        na, nb = atomize(a), atomize(b)
        if na is None or nb is None or na not in ranks or nb not in ranks:
            raise OutOfFragment("cmp on unknown operands: %s" % s)
        actual = "Less" if ranks[na] < ranks[nb] else ("Equal" if ranks[na] == ranks[nb] else "Greater")
        if isinstance(lab, tuple):
            return actual not in [ORDERING.get(v) for v in lab[1]]
        return ORDERING.get(lab) == actual
    # Option discriminant used as a boolean (`let Some(x) = .. else`): atomize(cond) names a bool, Some(=1) is True
    if cond.k == "discr":
        nm = atomize(cond)
        if nm is not None and nm in bools:
            if isinstance(lab, tuple):
                # `otherwise` edge: Some only if the None value (0) is among the excluded ones and Some (1) is not
                is_some = (0 in lab[1]) and (1 not in lab[1])
            else:
                is_some = (lab == 1)
            return bools[nm] == is_some
    raise OutOfFragment("condition outside the fragment: %s" % s)


def finite_eval(fn, atomize, names, bools=(), ignore=None, constraint=None, max_paths=4000):
    """For every weak order of `names` and valuation of `bools` (satisfying `constraint(ranks, bools)`), the list of
    paths whose conditions all hold. Yields (ranks, boolvals, [Path])."""
    ps = [p for p in paths(fn, max_paths=max_paths) if not p.diverges]
    for ranks in weak_orders(names):
        for bv in itertools.product([False, True], repeat=len(bools)):
            bd = dict(zip(bools, bv))
            if constraint is not None and not constraint(ranks, bd):
                continue
            sel = []
            for p in ps:
                ok = True
                for c, l in p.conds:
                    r = eval_cond(c, l, atomize, ranks, bd, ignore)
                    if r is False:
                        ok = False
                        break
                if ok:
                    sel.append(p)
            yield ranks, bd, sel


# ----------------------------------------------------------------------------- misc


def arg_bool(cs, i):
    return A.bool_shape(cs.arg_expr(i))


FLOOR = "floor"
CEIL = "ceil"
AWAY = "away"
PRIMS = [
    (re.compile(r"(^|::)checked_mul_div_ceil$"), CEIL),
    (re.compile(r"(^|::)checked_round_up_div$"), CEIL),
    (re.compile(r"(^|::)div_ceil$"), CEIL),
    (re.compile(r"(^|::)as_divisor_to_round_up_magnitude_div$"), AWAY),
    (re.compile(r"(^|::)checked_mul_div$"), FLOOR),
    (re.compile(r"(^|::)checked_mul_div_with_signed_numerator$"), FLOOR),
    (re.compile(r"(^|::)(checked_div|Div::div)$"), FLOOR),
]


def prim_class(name):
    for rx, k in PRIMS:
        if rx.search(name or ""):
            return k
    return None


def call_prims(fn, blocks=None):
    """(CallSite, class) for every rounding primitive called directly in fn (optionally restricted to blocks)."""
    out = []
    for cs in fn.calls:
        if blocks is not None and cs.bb not in blocks:
            continue
        k = prim_class(cs.callee) or prim_class(cs.resolved)
        if k:
            out.append((cs, k))
    return out


def raw_div_sites(fn):
    return [s for s in A.arith_sites(fn) if s["op"] in ("Div", "Rem")]


def only_edge_blocks(fn, cond_re, truth):
    """Blocks that can be reached only through the `truth` edge of a bool switch whose condition matches cond_re."""
    out = set()
    for bb in range(len(fn.blocks)):
        if fn.blocks[bb].get("cleanup"):
            continue
        for c, t in fn.bool_guards(bb):
            tt = t
            cc = c
            while cc.k == "un" and cc.a[0] == "Not":
                cc = cc.a[1]
                tt = not tt
            if tt == truth and re.search(cond_re, str(cc)):
                out.add(bb)
                break
    return out


def short_ids(fns):
    return sorted(f.short for f in fns)
