"""Whole-workspace program model over the driver's facts.

Program  — all loaded crates: functions (MIR), ADTs, constants, impls; resolved call graph.
Fn       — one MIR body: CFG (normal edges / unwind edges), dominators, reachability,
           definitions, expression reconstruction (`expr`), dominating guard facts.

Everything here is derived from the compiler's output for /repo's current tree; no
repository code is executed.
"""
import json
import os
import pickle
import re
from collections import defaultdict

from . import facts as _facts


class AnchorMissing(Exception):
    pass


# --------------------------------------------------------------------------- names

_GENERIC_RE = re.compile(r"<[^<>]*>")


def strip_generics(s):
    """Remove balanced <...> groups (iteratively)."""
    prev = None
    while prev != s:
        prev = s
        s = _GENERIC_RE.sub("", s)
    return s


def short_path(p, n=2):
    """`a::b::<impl T for X>::m` -> `X::m` ; `a::b::f` -> `b::f` ; trait method -> `Trait::m`."""
    if p is None:
        return "?"
    m = re.search(r"<impl (?:[^>]*? for )?([^>]+?)>::([A-Za-z0-9_]+)$", _collapse_impl(p))
    if m:
        ty = strip_generics(m.group(1)).split("::")[-1]
        return ty.strip("&").strip() + "::" + m.group(2)
    q = strip_generics(p)
    parts = [x for x in q.split("::") if x]
    return "::".join(parts[-n:])


def _collapse_impl(p):
    # normalise nested generic brackets inside the impl header so the regex above works
    out = []
    depth = 0
    i = 0
    # find '<impl' start
    k = p.rfind("<impl ")
    if k < 0:
        return p
    head, tail = p[:k], p[k:]
    # strip inner generics in the impl header, keeping the outermost <impl ...>
    res = []
    depth = 0
    for ch in tail:
        if ch == "<":
            depth += 1
            if depth == 1:
                res.append(ch)
            continue
        if ch == ">":
            if depth == 1:
                res.append(ch)
            depth -= 1
            continue
        if depth <= 1:
            res.append(ch)
    return head + "".join(res)


# --------------------------------------------------------------------------- expressions


class E:
    """Reconstructed expression (value provenance). kind in:
    param, local, const, field, call, bin, un, cast, agg, discr, phi, try, index, len, upvar, other
    """
    __slots__ = ("k", "a", "_s")

    def __init__(self, k, *a):
        self.k = k
        self.a = a
        self._s = None

    def __str__(self):
        if self._s is None:
            self._s = self._render()
        return self._s

    __repr__ = __str__

    def __eq__(self, o):
        return isinstance(o, E) and str(self) == str(o)

    def __hash__(self):
        return hash(str(self))

    def _render(self):
        k, a = self.k, self.a
        if k == "param":
            return a[1] or "_%d" % a[0]
        if k == "local":
            return (a[1] or "_%d" % a[0]) + "#"
        if k == "upvar":
            return "^" + a[0]
        if k == "const":
            return a[0]
        if k == "field":
            return "%s.%s" % (a[0], a[1])
        if k == "variant":
            return "%s@%s" % (a[0], a[1])
        if k == "index":
            return "%s[%s]" % (a[0], a[1])
        if k == "call":
            return "%s(%s)" % (a[0], ", ".join(str(x) for x in a[1]))
        if k == "try":
            return "%s?" % (a[0],)
        if k == "bin":
            return "(%s %s %s)" % (a[1], a[0], a[2])
        if k == "un":
            return "%s(%s)" % (a[0], a[1])
        if k == "cast":
            return "(%s as %s)" % (a[0], a[1])
        if k == "agg":
            name, fields = a[0], a[1]
            return "%s{%s}" % (name, ", ".join("%s: %s" % (n, v) for n, v in fields))
        if k == "discr":
            return "discr(%s)" % (a[0],)
        if k == "len":
            return "len(%s)" % (a[0],)
        if k == "phi":
            return "phi(%s)" % " | ".join(sorted(set(str(x) for x in a[0])))
        if k == "closure":
            return "closure<%s>" % a[0]
        return "%s<%s>" % (k, ",".join(str(x) for x in a))

    # ---- traversal helpers
    def children(self):
        k, a = self.k, self.a
        if k in ("field", "variant", "try", "discr", "len", "cast"):
            return [a[0]]
        if k == "index":
            return [a[0]] + ([a[1]] if isinstance(a[1], E) else [])
        if k == "call":
            return list(a[1])
        if k == "bin":
            return [a[1], a[2]]
        if k == "un":
            return [a[1]]
        if k == "agg":
            return [v for _, v in a[1]]
        if k == "phi":
            return list(a[0])
        if k == "closure":
            return list(a[1])
        return []

    def walk(self):
        seen = set()
        stack = [self]
        while stack:
            x = stack.pop()
            if id(x) in seen:
                continue
            seen.add(id(x))
            yield x
            stack.extend(x.children())

    def calls(self, name_re=None):
        """All call sub-expressions, optionally filtered by callee short-name regex."""
        out = []
        for x in self.walk():
            if x.k == "call" and (name_re is None or re.search(name_re, x.a[0])):
                out.append(x)
        return out

    def mentions(self, regex):
        return re.search(regex, str(self)) is not None

    def alts(self):
        """Alternatives if phi, else [self]."""
        if self.k == "phi":
            out = []
            for x in self.a[0]:
                out.extend(x.alts())
            return out
        return [self]


TRANSPARENT_CALLS = {
    "Deref::deref", "DerefMut::deref_mut", "Clone::clone", "Borrow::borrow", "BorrowMut::borrow_mut",
    "AsRef::as_ref", "AsMut::as_mut", "Into::into", "From::from", "ToOwned::to_owned",
    "IntoIterator::into_iter",
}


# --------------------------------------------------------------------------- call sites


class CallSite:
    __slots__ = ("fn", "bb", "callee", "resolved", "trait", "self_ty", "gargs", "args", "dest",
                 "target", "unwind", "line", "mac", "indirect", "callee_def", "resolved_def")

    def __init__(self, fn, bb, info, line, mac):
        self.fn = fn
        self.bb = bb
        self.callee = info.get("callee")
        self.resolved = info.get("resolved")
        # definition paths not going through re-exports (only present when they differ)
        self.callee_def = info.get("callee_def") or self.callee
        self.resolved_def = info.get("resolved_def") or self.resolved
        self.trait = info.get("trait")
        self.self_ty = info.get("self_ty")
        self.gargs = info.get("gargs", "")
        self.args = info["args"]
        self.dest = info["dest"]
        self.target = info.get("target")
        self.unwind = info.get("unwind")
        self.line = info.get("fline", line)
        self.mac = mac or []
        self.indirect = info.get("indirect")

    @property
    def name(self):
        """Best (most resolved) callee path."""
        return self.resolved or self.callee or "<indirect>"

    @property
    def short(self):
        return short_path(self.callee) if self.callee else "<indirect>"

    @property
    def rshort(self):
        return short_path(self.name)

    def matches(self, regex):
        return any(n and re.search(regex, n) for n in (self.callee, self.resolved, self.callee_def, self.resolved_def))

    def arg_expr(self, i, **kw):
        return self.fn.expr(self.args[i], **kw)

    def where(self):
        return "%s:%d" % (self.fn.file, self.line)

    def __repr__(self):
        return "<call %s in %s bb%d %s>" % (self.rshort, self.fn.short, self.bb, self.where())


# --------------------------------------------------------------------------- functions


class Fn:
    def __init__(self, prog, crate, d):
        self.prog = prog
        self.crate = crate
        self.d = d
        self.id = d["id"]
        self.name = d["name"]
        self.kind = d["kind"]
        self.file = d["file"]
        self.line = d["line"]
        self.mac = d.get("mac", [])
        self.mac_kind = d.get("mac_kind", "")
        self.parent = d.get("parent")
        self.impl = d.get("impl")
        self.trait_item = d.get("trait_item")
        self.trait_default_of = d.get("trait_default_of")
        self.docs = d.get("docs", "")
        self.attrs = d.get("attrs", [])
        self.inputs = d.get("inputs", [])
        self.ret = d.get("ret", "")
        self.vis = d.get("vis", "")
        self.arg_count = d["arg_count"]
        self.locals = d["locals"]
        self.blocks = d["blocks"]
        self.dbg = d.get("dbg", [])
        self._calls = None
        self._succ = None
        self._pred = None
        self._idom = None
        self._defs = None
        self._expr_cache = {}
        self._reach_cache = {}

    # -------- naming
    @property
    def short(self):
        return short_path(self.id)

    def where(self, line=None):
        return "%s:%d" % (self.file, line or self.line)

    def __repr__(self):
        return "<fn %s>" % self.id

    def param_name(self, i):
        """1-based local index of parameter i (0-based) -> debug name."""
        return self.locals[i + 1][1]

    def param_index(self, name):
        for i in range(self.arg_count):
            if self.locals[i + 1][1] == name:
                return i
        raise AnchorMissing("parameter `%s` of %s" % (name, self.id))

    # -------- CFG
    def _build_cfg(self):
        succ = []
        for i, b in enumerate(self.blocks):
            t = b["t"]
            k = t[0]
            e = []
            if k == "goto":
                e.append((t[1], ("goto",)))
            elif k == "switch":
                for v, tgt in t[2]:
                    e.append((tgt, ("val", int(v))))
                e.append((t[3], ("otherwise",)))
            elif k == "drop":
                e.append((t[2], ("drop",)))
            elif k == "call":
                if t[1].get("target") is not None:
                    e.append((t[1]["target"], ("ret",)))
            elif k == "assert":
                e.append((t[4], ("assert",)))
            elif k == "yield":
                e.append((t[1], ("resume",)))
            succ.append(e)
        self._succ = succ
        pred = [[] for _ in self.blocks]
        for i, es in enumerate(succ):
            for tgt, lab in es:
                pred[tgt].append((i, lab))
        self._pred = pred

    def succ(self, bb):
        if self._succ is None:
            self._build_cfg()
        return self._succ[bb]

    def pred(self, bb):
        if self._succ is None:
            self._build_cfg()
        return self._pred[bb]

    def n_blocks(self):
        return len(self.blocks)

    def reachable_from(self, src, avoid_blocks=(), avoid_edges=()):
        """Set of blocks reachable from `src` (inclusive) along normal edges."""
        key = None
        if not avoid_edges:
            key = (src if isinstance(src, int) else tuple(sorted(src)), tuple(sorted(avoid_blocks)))
            if key in self._reach_cache:
                return self._reach_cache[key]
        avoid_blocks = set(avoid_blocks)
        avoid_edges = set(avoid_edges)
        seen = set()
        stack = [src] if isinstance(src, int) else list(src)
        while stack:
            b = stack.pop()
            if b in seen or b in avoid_blocks:
                continue
            seen.add(b)
            for tgt, lab in self.succ(b):
                if (b, tgt) in avoid_edges or (b, tgt, lab) in avoid_edges:
                    continue
                if tgt not in seen:
                    stack.append(tgt)
        if key is not None:
            self._reach_cache[key] = seen
        return seen

    def can_reach(self, a, b, avoid_blocks=(), avoid_edges=()):
        return b in self.reachable_from(a, avoid_blocks, avoid_edges)

    def idom(self):
        if self._idom is not None:
            return self._idom
        n = len(self.blocks)
        reach = self.reachable_from(0)
        order = []
        seen = set()

        def dfs(root):
            stack = [(root, iter(self.succ(root)))]
            seen.add(root)
            while stack:
                node, it = stack[-1]
                adv = False
                for tgt, _ in it:
                    if tgt not in seen:
                        seen.add(tgt)
                        stack.append((tgt, iter(self.succ(tgt))))
                        adv = True
                        break
                if not adv:
                    order.append(node)
                    stack.pop()

        dfs(0)
        rpo = list(reversed(order))
        idx = {b: i for i, b in enumerate(rpo)}
        idom = {0: 0}
        changed = True
        while changed:
            changed = False
            for b in rpo[1:]:
                new = None
                for p, _ in self.pred(b):
                    if p in idom and p in idx:
                        if new is None:
                            new = p
                        else:
                            f1, f2 = p, new
                            while f1 != f2:
                                while idx[f1] > idx[f2]:
                                    f1 = idom[f1]
                                while idx[f2] > idx[f1]:
                                    f2 = idom[f2]
                            new = f1
                if new is not None and idom.get(b) != new:
                    idom[b] = new
                    changed = True
        self._idom = idom
        return idom

    def dominates(self, a, b):
        """Block a dominates block b (normal CFG from entry)."""
        idom = self.idom()
        if b not in idom:
            return False  # unreachable
        x = b
        while True:
            if x == a:
                return True
            if x == 0:
                return False
            x = idom[x]

    def dominators_of(self, b):
        idom = self.idom()
        out = []
        if b not in idom:
            return out
        x = b
        while True:
            out.append(x)
            if x == 0:
                break
            x = idom[x]
        return out

    # -------- calls
    @property
    def calls(self):
        if self._calls is None:
            cs = []
            for i, b in enumerate(self.blocks):
                t = b["t"]
                if t[0] == "call":
                    cs.append(CallSite(self, i, t[1], b.get("line", 0), b.get("mac")))
            self._calls = cs
        return self._calls

    def calls_to(self, regex):
        return [c for c in self.calls if c.matches(regex)]

    def call_in_block(self, bb):
        t = self.blocks[bb]["t"]
        if t[0] == "call":
            for c in self.calls:
                if c.bb == bb:
                    return c
        return None

    # -------- definitions
    def defs(self):
        """local -> list of (bb, stmt_idx|'call', proj(tuple), rvalue|CallSite)"""
        if self._defs is None:
            d = defaultdict(list)
            for i, b in enumerate(self.blocks):
                for si, s in enumerate(b["s"]):
                    if s[0] == "=":
                        pl = s[1]
                        d[pl[0]].append((i, si, tuple(pl[1:]), s[2]))
                    elif s[0] == "setdiscr":
                        pl = s[1]
                        d[pl[0]].append((i, si, tuple(pl[1:]), ["setdiscr", s[2]]))
                t = b["t"]
                if t[0] == "call":
                    pl = t[1]["dest"]
                    d[pl[0]].append((i, "call", tuple(pl[1:]), self.call_in_block(i)))
            self._defs = d
        return self._defs

    def statements(self):
        for i, b in enumerate(self.blocks):
            for si, s in enumerate(b["s"]):
                yield i, si, s

    def stmt_line(self, s):
        return s[3] if len(s) > 3 and isinstance(s[3], int) else 0

    # -------- expression reconstruction
    def local_expr(self, n, depth=0, stack=()):
        key = n
        if key in self._expr_cache:
            return self._expr_cache[key]
        name = self.locals[n][1]
        if n != 0 and n <= self.arg_count:
            e = E("param", n - 1, name)
            # NOTE: a parameter re-assigned in the body (`mut x`; `x = ..`) still renders as the parameter;
            # rules that depend on such a value read `reassigned_params()` / defs() explicitly.
            self._expr_cache[key] = e
            return e
        if n in stack or depth > 40:
            return E("local", n, name)
        ds = [d for d in self.defs().get(n, []) if d[2] == ()]
        partial = [d for d in self.defs().get(n, []) if d[2] != ()]
        alts = []
        for (bb, si, _p, rv) in ds:
            alts.append(self._rvalue_expr(rv, depth + 1, stack + (n,)))
        if not alts and partial:
            # built field-by-field: aggregate of partial defs
            fields = []
            for (bb, si, p, rv) in partial:
                if len(p) == 1 and p[0].startswith("."):
                    fields.append((p[0][1:], self._rvalue_expr(rv, depth + 1, stack + (n,))))
            if fields:
                alts.append(E("agg", "partial", tuple(fields)))
        if not alts:
            e = E("local", n, name)
        elif len(alts) == 1:
            e = alts[0]
        else:
            uniq = []
            seen = set()
            for x in alts:
                s = str(x)
                if s not in seen:
                    seen.add(s)
                    uniq.append(x)
            e = uniq[0] if len(uniq) == 1 else E("phi", tuple(uniq))
        if not stack:
            self._expr_cache[key] = e
        return e

    def reassigned_params(self):
        """Parameters that the body assigns to (their `expr` is the incoming value only)."""
        return [self.locals[n][1] or "_%d" % n for n in range(1, self.arg_count + 1)
                if any(d[2] == () for d in self.defs().get(n, []))]

    def _rvalue_expr(self, rv, depth, stack):
        if isinstance(rv, CallSite):
            return self._call_expr(rv, depth, stack)
        k = rv[0]
        if k == "use":
            return self.expr(rv[1], depth, stack)
        if k == "ref" or k == "rawptr":
            return self.expr(rv[2], depth, stack)
        if k == "bin":
            return E("bin", rv[1], self.expr(rv[2], depth, stack), self.expr(rv[3], depth, stack))
        if k == "un":
            return E("un", rv[1], self.expr(rv[2], depth, stack))
        if k == "cast":
            inner = self.expr(rv[2], depth, stack)
            if rv[1].startswith("PointerCoercion") or rv[1] in ("PtrToPtr", "Transmute"):
                return inner
            return E("cast", inner, short_path(rv[3], 1))
        if k == "discr":
            return E("discr", self.expr(rv[1], depth, stack))
        if k == "len":
            return E("len", self.expr(rv[1], depth, stack))
        if k == "agg":
            kind = rv[1]
            ops = rv[4]
            if kind == "adt":
                names = rv[3]
                vname = names[0]
                fnames = names[1:]
                adt = short_path(rv[2], 1)
                nm = adt if vname == adt else "%s::%s" % (adt, vname)
                return E("agg", nm, tuple((fnames[i] if i < len(fnames) else str(i), self.expr(o, depth, stack))
                                          for i, o in enumerate(ops)))
            if kind == "closure":
                return E("closure", rv[2], tuple(self.expr(o, depth, stack) for o in ops), tuple(rv[3]))
            return E("agg", kind, tuple((str(i), self.expr(o, depth, stack)) for i, o in enumerate(ops)))
        if k == "repeat":
            return E("agg", "repeat", (("0", self.expr(rv[1], depth, stack)),))
        if k == "setdiscr":
            return E("other", "setdiscr", rv[1])
        return E("other", k)

    def _call_expr(self, cs, depth, stack):
        name = cs.short
        args = tuple(self.expr(a, depth, stack) for a in cs.args)
        if name in TRANSPARENT_CALLS and len(args) == 1:
            return args[0]
        if name == "Try::branch" and len(args) == 1:
            return E("trybranch", args[0])
        return E("call", name, args, cs)

    def expr(self, op, depth=0, stack=()):
        """Expression for an operand (place list or const dict)."""
        if isinstance(op, dict):
            return self._const_expr(op)
        n = op[0]
        e = self.local_expr(n, depth, stack)
        projs = op[1:]
        if projs and "*" not in projs and not (0 < n <= self.arg_count):
            # exact partial definitions (e.g. `_5.0 = ..`) of a local aggregate built field by field
            pd = [d for d in self.defs().get(n, []) if d[2] == tuple(projs)]
            if pd and n not in stack and depth < 40:
                alts = [self._rvalue_expr(d[3], depth + 1, stack + (n,)) for d in pd]
                whole = [d for d in self.defs().get(n, []) if d[2] == ()]
                if not whole:
                    return alts[0] if len(alts) == 1 else E("phi", tuple(alts))
        for p in projs:
            e = self._project(e, p)
        return e

    def expr_on_path(self, op, blocks, upto=None, _depth=0):
        """Path-sensitive variant of `expr`: a local with several definitions is resolved to the
        definition executed last on the given block path (before position `upto` = (index in path))."""
        if isinstance(op, dict):
            return self._const_expr(op)
        pos = {}
        for i, b in enumerate(blocks):
            pos[b] = i  # last occurrence
        limit = len(blocks) if upto is None else upto
        n = op[0]
        projs = tuple(op[1:])
        if _depth > 30:
            return self.expr(op)

        def rv_on_path(rv, at):
            if isinstance(rv, CallSite):
                name = rv.short
                args = tuple(self.expr_on_path(a, blocks, at, _depth + 1) for a in rv.args)
                if name in TRANSPARENT_CALLS and len(args) == 1:
                    return args[0]
                if name == "Try::branch" and len(args) == 1:
                    return E("trybranch", args[0])
                return E("call", name, args, rv)
            k = rv[0]
            sub = lambda o: self.expr_on_path(o, blocks, at, _depth + 1)
            if k == "use":
                return sub(rv[1])
            if k in ("ref", "rawptr"):
                return sub(rv[2])
            if k == "bin":
                return E("bin", rv[1], sub(rv[2]), sub(rv[3]))
            if k == "un":
                return E("un", rv[1], sub(rv[2]))
            if k == "cast":
                inner = sub(rv[2])
                if rv[1].startswith("PointerCoercion") or rv[1] in ("PtrToPtr", "Transmute"):
                    return inner
                return E("cast", inner, short_path(rv[3], 1))
            if k == "discr":
                return E("discr", sub(rv[1]))
            if k == "agg" and rv[1] == "adt":
                names = rv[3]
                adt = short_path(rv[2], 1)
                nm = adt if names[0] == adt else "%s::%s" % (adt, names[0])
                return E("agg", nm, tuple((names[1:][i] if i < len(names) - 1 else str(i), sub(o)) for i, o in enumerate(rv[4])))
            if k == "agg" and rv[1] != "closure":
                return E("agg", rv[1], tuple((str(i), sub(o)) for i, o in enumerate(rv[4])))
            return self._rvalue_expr(rv, 0, ())

        if 0 < n <= self.arg_count:
            e = self.local_expr(n)
        else:
            cands = []
            for (bb, si, proj, rv) in self.defs().get(n, []):
                if proj != () or bb not in pos or pos[bb] >= limit + (0 if si == "call" else 1):
                    continue
                # a call defines its dest at the END of block bb: usable only by later blocks
                if si == "call" and pos[bb] >= limit:
                    continue
                cands.append((pos[bb], 10 ** 6 if si == "call" else si, rv))
            if cands:
                cands.sort(key=lambda c: (c[0], c[1]))
                at, _, rv = cands[-1]
                e = rv_on_path(rv, at)
            else:
                e = self.local_expr(n)
                if projs and "*" not in projs:
                    pd = [d for d in self.defs().get(n, []) if d[2] == projs and d[0] in pos]
                    if pd:
                        pd.sort(key=lambda d: pos[d[0]])
                        return rv_on_path(pd[-1][3], pos[pd[-1][0]])
        for p in projs:
            e = self._project(e, p)
        return e

    def _project(self, e, p):
        if p == "*":
            return e
        if p.startswith("."):
            nm = p[1:]
            if nm.startswith("^"):
                return E("upvar", nm[1:])
            if e.k == "agg":
                for fn_, v in e.a[1]:
                    if fn_ == nm:
                        return v
            if e.k == "variant" and e.a[0].k == "trybranch" and e.a[1] == "Continue" and nm == "0":
                return E("try", e.a[0].a[0])
            if e.k == "variant" and e.a[0].k == "agg":
                # downcast of a known aggregate variant
                for fn_, v in e.a[0].a[1]:
                    if fn_ == nm:
                        return v
            if e.k == "phi":
                return E("phi", tuple(self._project(x, p) for x in e.a[0]))
            return E("field", e, nm)
        if p.startswith("@"):
            return E("variant", e, p[1:])
        if p.startswith("["):
            inner = p[1:-1]
            if inner.startswith("_"):
                try:
                    return E("index", e, self.local_expr(int(inner[1:])))
                except ValueError:
                    pass
            return E("index", e, inner)
        return e

    def _const_expr(self, c):
        if "fn" in c:
            return E("const", "fn:" + short_path(c["fn"]), c)
        if "def" in c and not c.get("promoted"):
            return E("const", short_path(c["def"]), c)
        if "int" in c:
            ty = c.get("ty", "")
            if ty == "bool":
                return E("const", "true" if c["int"] != "0" else "false", c)
            return E("const", c["int"], c)
        if "deref_int" in c:
            return E("const", c["deref_int"], c)
        if c.get("promoted") and c.get("pbody"):
            # promoted `&CONST` / `&Enum::Variant`: render what the promoted body is built from
            names = [short_path(n) if "::" in n and " " not in n else n for n in c["pbody"]]
            return E("const", names[0] if len(names) == 1 else "promoted(%s)" % ", ".join(names), c)
        if c.get("promoted"):
            pv = c.get("pval", "")
            if pv and "alloc" not in pv:
                return E("const", re.sub(r"^const ", "", pv), c)
            # allocation ids are not stable across builds: render by type only
            return E("const", "promoted<%s>" % short_path(c.get("ty", "?"), 1), c)
        s = c.get("c", "?")
        s = re.sub(r"^const ", "", s)
        s = re.sub(r"_(u|i)(8|16|32|64|128|size)$", "", s)
        return E("const", s, c)

    # -------- guards
    def switch_expr(self, bb):
        t = self.blocks[bb]["t"]
        assert t[0] == "switch"
        return self.expr(t[1])

    def guards(self, bb, upto=None):
        """Facts established by branch edges that every path from entry to `bb` must take.

        Returns list of (switch_bb, cond_expr, allowed) where allowed is a frozenset of labels
        (ints or 'otherwise') of the switch's outgoing edges through which `bb` can be reached
        without re-entering the switch block. Only switches where some label is excluded."""
        out = []
        for s in self.dominators_of(bb):
            if s == bb:
                continue
            t = self.blocks[s]["t"]
            if t[0] != "switch":
                continue
            allowed = set()
            labels = []
            for tgt, lab in self.succ(s):
                l = lab[1] if lab[0] == "val" else "otherwise"
                labels.append(l)
                if bb in self.reachable_from(tgt, avoid_blocks=(s,)):
                    allowed.add(l)
            if len(allowed) < len(set(labels)):
                out.append((s, self.expr(t[1]), frozenset(allowed), tuple(labels)))
        return out

    def bool_guards(self, bb):
        """Guards on boolean-valued conditions: list of (cond_expr, truth)."""
        out = []
        for s, cond, allowed, labels in self.guards(bb):
            t = self.blocks[s]["t"]
            if t[4] != "bool":
                continue
            if allowed == frozenset([0]):
                out.append((cond, False))
            elif allowed == frozenset(["otherwise"]):
                out.append((cond, True))
        return out

    # -------- exits
    def exits(self):
        """Classify the assignments to the return place.
        Returns list of (bb, kind, expr) with kind in ok|err|unknown."""
        out = []
        for (bb, si, proj, rv) in self.defs().get(0, []):
            if proj != ():
                continue
            e = self._rvalue_expr(rv, 0, ())
            out.append((bb, classify_result(e), e))
        return out

    def err_exit_blocks(self):
        return {bb for bb, k, _ in self.exits() if k == "err"}

    def ok_exit_blocks(self):
        return {bb for bb, k, _ in self.exits() if k in ("ok", "unknown")}

    def panic_sites(self):
        """Diverging calls (panic/unwrap_failed/..) and assert terminators on the normal CFG."""
        out = []
        for i, b in enumerate(self.blocks):
            if b.get("cleanup"):
                continue
            t = b["t"]
            if t[0] == "assert":
                out.append((i, "assert:" + t[3], b.get("line", 0), b.get("mac", [])))
            elif t[0] == "call" and t[1].get("target") is None:
                out.append((i, "diverge:" + short_path(t[1].get("callee")), b.get("line", 0), b.get("mac", [])))
        return out


def classify_result(e):
    if e.k == "agg":
        nm = e.a[0]
        if nm.endswith("::Err") or nm.endswith("::None") or nm == "Option::None" or nm == "Result::Err":
            return "err"
        if nm.endswith("::Ok") or nm.endswith("::Some"):
            return "ok"
        return "ok"
    if e.k == "call":
        if e.a[0] in ("FromResidual::from_residual",):
            return "err"
        return "unknown"
    if e.k == "phi":
        ks = {classify_result(x) for x in e.a[0]}
        return ks.pop() if len(ks) == 1 else "unknown"
    if e.k == "const":
        s = e.a[0]
        if "None" in s or "Err" in s:
            return "err"
        return "ok"
    return "unknown"


# --------------------------------------------------------------------------- ADTs / consts


class Adt:
    def __init__(self, crate, d):
        self.crate = crate
        self.d = d
        self.id = d["id"]
        self.kind = d["kind"]
        self.file = d["file"]
        self.line = d["line"]
        self.attrs = d.get("attrs", [])
        self.docs = d.get("docs", "")
        self.variants = d["variants"]
        self.layout = d.get("layout")
        self.repr = d.get("repr", "")
        self.mac = d.get("mac", [])

    @property
    def short(self):
        return short_path(self.id, 1)

    @property
    def fields(self):
        return self.variants[0]["fields"] if self.variants else []

    def field(self, name):
        for f in self.fields:
            if f["name"] == name:
                return f
        raise AnchorMissing("field %s of %s" % (name, self.id))

    def variant_names(self):
        return [v["name"] for v in self.variants]

    def discr_map(self):
        return {int(v["discr"]): v["name"] for v in self.variants if "discr" in v}

    def field_offsets(self):
        if not self.layout or "offsets" not in self.layout:
            return None
        return {f["name"]: (self.layout["offsets"][i], f["ty"]) for i, f in enumerate(self.fields)}


class Program:
    def __init__(self, crates=None, facts_dir=None, log=None):
        self.facts_dir = facts_dir or _facts.FACTS
        self.crates = {}
        self.fns = {}
        self.adts = {}
        self.consts = {}
        self.impls = []
        self.traits = {}
        self._callers = None
        self._by_name = defaultdict(list)
        for c in (crates or _facts.EXPECTED_CRATES):
            self.load(c)

    def load(self, crate):
        if crate in self.crates:
            return
        p = os.path.join(self.facts_dir, crate + ".lib.json")
        if not os.path.exists(p):
            raise AnchorMissing("facts for crate %s (%s)" % (crate, p))
        pk = p[:-5] + ".pickle"
        d = None
        if os.path.exists(pk) and os.path.getmtime(pk) >= os.path.getmtime(p):
            try:
                with open(pk, "rb") as fh:
                    d = pickle.load(fh)
            except Exception:
                d = None
        if d is None:
            with open(p) as fh:
                d = json.load(fh)
            try:
                tmp = pk + ".%d" % os.getpid()
                with open(tmp, "wb") as fh:
                    pickle.dump(d, fh, protocol=pickle.HIGHEST_PROTOCOL)
                os.replace(tmp, pk)
            except Exception:
                pass
        self.crates[crate] = d
        for f in d["fns"]:
            fn = Fn(self, crate, f)
            self.fns[fn.id] = fn
            self._by_name[fn.name].append(fn)
        for a in d["adts"]:
            self.adts[a["id"]] = Adt(crate, a)
        for c in d["consts"]:
            self.consts[c["id"]] = c
        for i in d["impls"]:
            i["crate"] = crate
            self.impls.append(i)
        for t in d["traits"]:
            self.traits[t["id"]] = t
        self._callers = None

    # ---- lookup
    def fn(self, pattern, crate=None):
        """Unique function whose id matches `pattern` (regex, searched; `$` appended)."""
        ms = self.find_fns(pattern, crate)
        if len(ms) == 1:
            return ms[0]
        if not ms:
            raise AnchorMissing("function matching /%s/" % pattern)
        raise AnchorMissing("function matching /%s/ is ambiguous: %s" % (pattern, [m.id for m in ms][:6]))

    def find_fns(self, pattern, crate=None):
        rx = re.compile(pattern if pattern.endswith("$") else pattern + "$")
        return [f for f in self.fns.values() if rx.search(f.id) and (crate is None or f.crate == crate)]

    def adt(self, pattern):
        rx = re.compile(pattern if pattern.endswith("$") else pattern + "$")
        ms = [a for a in self.adts.values() if rx.search(a.id)]
        if len(ms) == 1:
            return ms[0]
        if not ms:
            raise AnchorMissing("type matching /%s/" % pattern)
        raise AnchorMissing("type matching /%s/ is ambiguous: %s" % (pattern, [m.id for m in ms][:6]))

    def const(self, pattern):
        rx = re.compile(pattern if pattern.endswith("$") else pattern + "$")
        ms = [c for k, c in self.consts.items() if rx.search(k)]
        if len(ms) == 1:
            return ms[0]
        if not ms:
            raise AnchorMissing("const matching /%s/" % pattern)
        raise AnchorMissing("const matching /%s/ is ambiguous: %s" % (pattern, [m["id"] for m in ms][:6]))

    def closures_of(self, fn):
        pre = fn.id + "::{closure#"
        return [f for f in self.fns.values() if f.id.startswith(pre)]

    # ---- call graph
    def callees(self, cs):
        """Local Fn objects a call site may dispatch to."""
        out = []
        for nm in (cs.resolved_def, cs.resolved, cs.callee_def, cs.callee):
            if nm and nm in self.fns:
                out.append(self.fns[nm])
                return out
        # unresolved trait method: every local impl of that trait item
        if cs.callee and cs.trait:
            for f in self._by_name.get(cs.callee.rsplit("::", 1)[-1], []):
                if f.trait_item in (cs.callee, cs.callee_def):
                    out.append(f)
        return out

    def callers(self):
        if self._callers is None:
            cm = defaultdict(list)
            for f in self.fns.values():
                for cs in f.calls:
                    for g in self.callees(cs):
                        cm[g.id].append(cs)
                    names = set(n for n in (cs.callee, cs.resolved, cs.callee_def, cs.resolved_def) if n and n not in self.fns)
                    for nname in names:
                        cm[nname].append(cs)
                # closures created here count as "calls" from the parent to the closure body
                for bb, si, s in f.statements():
                    rv = s[2] if s[0] == "=" else None
                    if rv and rv[0] == "agg" and rv[1] == "closure" and rv[2] in self.fns:
                        cm[rv[2]].append(_ClosureRef(f, bb, rv[2], self.stmt_line(s)))
            self._callers = cm
        return self._callers

    @staticmethod
    def stmt_line(s):
        return s[3] if len(s) > 3 and isinstance(s[3], int) else 0

    def callers_of(self, fn_id):
        return self.callers().get(fn_id, [])

    def reachable_fns(self, roots, follow=None, max_fns=100000):
        """Transitive closure over local callees (including closures created)."""
        seen = {}
        stack = list(roots)
        while stack and len(seen) < max_fns:
            f = stack.pop()
            if f.id in seen:
                continue
            seen[f.id] = f
            for cs in f.calls:
                for g in self.callees(cs):
                    if g.id not in seen and (follow is None or follow(g)):
                        stack.append(g)
            for bb, si, s in f.statements():
                rv = s[2] if s[0] == "=" else None
                if rv and rv[0] == "agg" and rv[1] == "closure" and rv[2] in self.fns:
                    g = self.fns[rv[2]]
                    if g.id not in seen:
                        stack.append(g)
        return seen

    def transitive_calls(self, roots, follow=None):
        """All call sites in functions reachable from roots."""
        out = []
        for f in self.reachable_fns(roots, follow).values():
            out.extend(f.calls)
        return out


class _ClosureRef:
    """Pseudo call-site: function `fn` creates closure `callee` in block bb."""

    def __init__(self, fn, bb, callee, line):
        self.fn = fn
        self.bb = bb
        self.callee = callee
        self.resolved = None
        self.line = line
        self.args = []
        self.mac = []
        self.is_closure_ref = True

    def where(self):
        return "%s:%d" % (self.fn.file, self.line)
