"""gmxsa — static analysis of gmsol-labs/gmx-solana over compiler-extracted MIR facts."""
