"""Stale-read rule (def-use ordering across a mutating call).

In a function F that owns/borrows `self`, a callee invoked as `self.m()` may assign `self.<field>`. A value read from
`self.<field>` BEFORE that call and used AFTER it is stale: it does not see the callee's update. The rule finds, for the
tabled (F, field) pairs, every read of the field that can reach the writer call without being dominated by it, follows
the value forward through locals (assignments, call arguments -> call results) and reports a use located behind the
writer call. Reads inside `debug_assert!` expansions are ignored. This is dataflow over the MIR, not a shape match.
"""
import re

from . import analyses as A


def _is_self_field_place(fn, op, field):
    return isinstance(op, list) and len(op) > 1 and fn.locals[op[0]][1] == "self" and \
        [p for p in op[1:] if p != "*"][:1] == ["." + field]


def _operands(s):
    rv = s[2]
    k = rv[0]
    if k == "use":
        return [rv[1]]
    if k in ("ref", "rawptr"):
        return [rv[2]]
    if k == "bin":
        return [rv[2], rv[3]]
    if k in ("un", "cast"):
        return [rv[2]]
    if k in ("discr", "len"):
        return [rv[1]]
    if k == "agg":
        return list(rv[4])
    if k == "repeat":
        return [rv[1]]
    return []


def writer_calls(prog, fn, field):
    """Calls in fn that pass `self` to a local callee whose body (or its private callees, one level) assigns self.<field>."""
    out = []
    for cs in fn.calls:
        if fn.blocks[cs.bb].get("cleanup") or not cs.args:
            continue
        if str(cs.arg_expr(0)) != "self":
            continue
        for g in prog.callees(cs):
            bodies = [g] + [h for c2 in g.calls for h in prog.callees(c2) if c2.args and str(c2.arg_expr(0)) == "self"]
            if any(w["kind"] == "assign" and re.match(r"^self\.%s$" % re.escape(field), w["path"])
                   for b in bodies for w in A.field_writes(b, r"^self\.%s$" % re.escape(field))):
                out.append(cs)
                break
    return out


def stale_uses(prog, fn, field):
    """-> list of (writer CallSite, read line, use bb, use description)"""
    res = []
    for wc in writer_calls(prog, fn, field):
        after_root = wc.target
        if after_root is None:
            continue
        for bb, si, s in fn.statements():
            if s[0] != "=" or fn.blocks[bb].get("cleanup"):
                continue
            mac = s[4] if len(s) > 4 else []
            if any("debug_assert" in m for m in mac):
                continue
            if not any(_is_self_field_place(fn, o, field) for o in _operands(s)):
                continue
            before = fn.can_reach(bb, wc.bb) and not fn.dominates(after_root, bb)
            if not before or len(s[1]) != 1:
                continue
            tainted = {s[1][0]}
            uses = []
            changed = True
            while changed:
                changed = False
                for b2, si2, s2 in fn.statements():
                    if s2[0] != "=" or fn.blocks[b2].get("cleanup") or (b2, si2) == (bb, si):
                        continue
                    mac2 = s2[4] if len(s2) > 4 else []
                    if any("debug_assert" in m for m in mac2):
                        continue
                    if any(isinstance(o, list) and o[0] in tainted for o in _operands(s2)):
                        uses.append((b2, "stmt L%s" % fn.stmt_line(s2)))
                        if len(s2[1]) == 1 and s2[1][0] not in tainted:
                            tainted.add(s2[1][0])
                            changed = True
                for c in fn.calls:
                    if fn.blocks[c.bb].get("cleanup") or any("debug_assert" in m for m in c.mac):
                        continue
                    if any(isinstance(a, list) and a[0] in tainted for a in c.args):
                        uses.append((c.bb, "call %s" % c.short))
                        if len(c.dest) == 1 and c.dest[0] not in tainted and c.dest[0] != 0:
                            tainted.add(c.dest[0])
                            changed = True
            for ub, what in uses:
                if fn.dominates(after_root, ub):
                    res.append((wc, fn.stmt_line(s), ub, what))
                    break
    return res


def rule(ctx, prog, rid, fn, fields, floor_writers):
    """Arm the stale-read rule on `fn` for the given self fields."""
    ctx.rule(rid, "a value read from self.<field> before a callee that assigns that field is not used behind that call "
             "(the accounting uses the value the callee may have promoted/capped, not a stale snapshot)")
    n = 0
    for field in fields:
        ws = writer_calls(prog, fn, field)
        n += len(ws)
        st = stale_uses(prog, fn, field)
        ctx.ob("%s:%s:%s" % (rid, fn.short, field), not st and bool(ws),
               "%s: self.%s is assigned by %s; %s" % (
                   fn.short, field, sorted(set(w.short for w in ws)),
                   "no pre-call read of it is used behind the call" if not st else
                   "STALE: read at line %d (before %s) is used behind it by %s" % (st[0][1], st[0][0].short, st[0][3])),
               where=fn.where(st[0][1] if st else None), detail={"writers": [w.short for w in ws]})
    ctx.floor(rid, n, floor_writers)
