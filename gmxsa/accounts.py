"""Declarative Anchor account constraints, parsed from the `#[account(..)]` tokens the driver
recorded in front of each field of a `#[derive(Accounts)]` struct."""
import re


def _strip_comments(s):
    out = []
    for line in s.splitlines():
        # remove // comments (incl. doc comments) — attribute tokens never contain `//` inside strings here
        i = line.find("//")
        if i >= 0:
            line = line[:i]
        out.append(line)
    return "\n".join(out)


def _split_top(s, sep=","):
    parts, depth, cur = [], 0, []
    for ch in s:
        if ch in "([{":
            depth += 1
        elif ch in ")]}":
            depth -= 1
        if ch == sep and depth == 0:
            parts.append("".join(cur))
            cur = []
        else:
            cur.append(ch)
    if "".join(cur).strip():
        parts.append("".join(cur))
    return [re.sub(r"\s+", " ", p).strip() for p in parts if p.strip()]


def parse_account_attrs(pre):
    """-> list of (key, value, error) ; flags have value None."""
    if not pre:
        return []
    txt = _strip_comments(pre)
    items = []
    for m in re.finditer(r"#\[account\(", txt):
        i = m.end()
        depth = 1
        j = i
        while j < len(txt) and depth:
            if txt[j] in "([{":
                depth += 1
            elif txt[j] in ")]}":
                depth -= 1
            j += 1
        body = txt[i:j - 1]
        for part in _split_top(body):
            err = None
            # split `@ Error` at top level
            ps = _split_top(part, "@")
            if len(ps) == 2:
                part, err = ps
            if "=" in part and not re.match(r"^[a-z_:]+$", part):
                k, v = part.split("=", 1)
                # guard against `==` in a bare expression (never the case for anchor keys)
                items.append((k.strip(), v.strip(), err))
            else:
                items.append((part.strip(), None, err))
    return items


def _cut_window(w):
    """Keep what follows the last `{` outside (..)/[..] — the struct's opening brace."""
    depth = 0
    last = -1
    for i, ch in enumerate(w):
        if ch in "([":
            depth += 1
        elif ch in ")]":
            depth -= 1
        elif ch == "{" and depth == 0:
            last = i
    return w[last + 1:] if last >= 0 else ""


class AccountsStruct:
    def __init__(self, adt):
        self.adt = adt
        self.fields = []
        for f in adt.fields:
            pre = f.get("pre")
            if pre is None and f.get("pre_window"):
                pre = _cut_window(f["pre_window"])
            items = parse_account_attrs(pre)
            self.fields.append({"name": f["name"], "ty": f["ty"], "items": items, "line": f.get("line", 0)})

    def field(self, name):
        for f in self.fields:
            if f["name"] == name:
                return f
        return None

    def signers(self):
        out = []
        for f in self.fields:
            if re.search(r"\bSigner<", f["ty"]) or any(k == "signer" for k, _, _ in f["items"]):
                out.append(f["name"])
        return out

    def is_mut(self, f):
        return any(k in ("mut", "init", "init_if_needed", "zero") for k, _, _ in f["items"]) or \
            any(k == "close" for k, _, _ in f["items"])

    def facts(self):
        """Normalised security-relevant binding facts, one string each."""
        out = []
        for f in self.fields:
            n = f["name"]
            if n in self.signers():
                out.append("signer:%s" % n)
            for k, v, err in f["items"]:
                if k in ("mut", "bump", "space") or k.startswith("space"):
                    continue
                if k in ("init", "init_if_needed", "zero"):
                    out.append("%s:%s" % (k, n))
                elif k == "has_one":
                    out.append("has_one:%s->%s" % (n, v))
                elif k in ("payer", "close", "address", "owner") or "::" in k:
                    out.append("%s:%s=%s" % (k, n, v))
                elif k == "seeds":
                    ids = sorted(set(re.findall(r"\b([a-z_][a-z0-9_]*)\s*\.\s*(?:key|load|as_ref|to_account_info)", v)))
                    out.append("seeds:%s<-%s" % (n, ",".join(ids)))
                elif k == "seeds::program":
                    out.append("seeds_program:%s=%s" % (n, v))
                elif k == "constraint":
                    out.append("constraint:%s:%s" % (n, norm_expr(v)))
                else:
                    out.append("%s:%s=%s" % (k, n, v))
        return out


def norm_expr(v):
    """Whitespace-free; the two sides of a top-level ==/!= are sorted (a==b is b==a)."""
    v = re.sub(r"\s+", "", v)
    for op in ("==", "!="):
        parts = _split_top_str(v, op)
        if len(parts) == 2:
            return op.join(sorted(parts))
    return v


def _split_top_str(s, op):
    depth = 0
    i = 0
    while i < len(s):
        ch = s[i]
        if ch in "([{":
            depth += 1
        elif ch in ")]}":
            depth -= 1
        elif depth == 0 and s.startswith(op, i) and not s.startswith("=>", i):
            return [s[:i], s[i + len(op):]]
        i += 1
    return [s]
