"""Reusable analyses over the program model (see DESIGN.md §3).

 cmp_facts        — A9-lite: comparison facts that hold at a block (from dominating branch edges)
 decision_table   — A10/A4: all acyclic paths of a small function with their branch conditions and result
 match_table      — A4: `match <enum>` lowered to SwitchInt on a discriminant -> {variant: result expr}
 field_writes     — A3: stores whose place projects through a given field (incl. &mut escapes)
 err_after        — A3(b): fallible exits reachable after a site
 arith_sites      — A8: raw arithmetic / narrowing casts / panic sites of a function
 reaches_calls    — A1/A7: callee names reachable through the local call graph
 const_args       — A6: constant / parameter-derived boolean arguments
"""
import re

from .model import E, short_path

CMP_BIN = {"Lt": "<", "Le": "<=", "Gt": ">", "Ge": ">=", "Eq": "==", "Ne": "!="}
CMP_CALL = {"PartialOrd::lt": "<", "PartialOrd::le": "<=", "PartialOrd::gt": ">", "PartialOrd::ge": ">=",
            "PartialEq::eq": "==", "PartialEq::ne": "!="}
NEG = {"<": ">=", "<=": ">", ">": "<=", ">=": "<", "==": "!=", "!=": "=="}
FLIP = {"<": ">", "<=": ">=", ">": "<", ">=": "<=", "==": "==", "!=": "!="}


def as_cmp(e):
    """Expression -> (op, a, b) if it is a comparison, handling Not(...). Else None."""
    if e.k == "bin" and e.a[0] in CMP_BIN:
        return (CMP_BIN[e.a[0]], e.a[1], e.a[2])
    if e.k == "call" and e.a[0] in CMP_CALL and len(e.a[1]) == 2:
        return (CMP_CALL[e.a[0]], e.a[1][0], e.a[1][1])
    if e.k == "un" and e.a[0] == "Not":
        c = as_cmp(e.a[1])
        if c:
            return (NEG[c[0]], c[1], c[2])
    return None


def cmp_facts(fn, bb):
    """Comparison facts that hold whenever control reaches block bb: list of (op, a, b) with E operands.
    Also yields ('true', e, None) / ('false', e, None) for other boolean conditions."""
    out = []
    for cond, truth in fn.bool_guards(bb):
        for c in cond.alts() if cond.k == "phi" else [cond]:
            pass
        c = as_cmp(cond)
        if c:
            op, a, b = c
            if not truth:
                op = NEG[op]
            out.append((op, a, b))
        else:
            inner = cond
            t = truth
            while inner.k == "un" and inner.a[0] == "Not":
                inner = inner.a[1]
                t = not t
            out.append(("true" if t else "false", inner, None))
    return out


def has_fact(facts, op, a_re, b_re):
    """Is there a fact `a op b` (or its mirror) whose operands match the regexes?"""
    for (o, a, b) in facts:
        if b is None:
            continue
        sa, sb = str(a), str(b)
        if o == op and re.search(a_re, sa) and re.search(b_re, sb):
            return True
        if FLIP[o] == op and re.search(a_re, sb) and re.search(b_re, sa):
            return True
        # strict implies non-strict
        if op in ("<=", ">=") and o == op[0] and re.search(a_re, sa) and re.search(b_re, sb):
            return True
        if op in ("<=", ">=") and FLIP[o] == op[0] and re.search(a_re, sb) and re.search(b_re, sa):
            return True
    return False


def has_bool_fact(facts, truth, e_re):
    for (o, a, b) in facts:
        if b is None and o == ("true" if truth else "false") and re.search(e_re, str(a)):
            return True
    return False


# ------------------------------------------------------------------ decision tables


def decision_table(fn, max_paths=4000, ignore_drop_flags=True):
    """All acyclic entry->return paths on the normal CFG.
    Returns list of dict(conds=[(cond_expr, label)], ret=E|None, blocks=[..], calls=[CallSite..], diverges=bool).
    label: int value, or 'otherwise' with the set of excluded values."""
    paths = []
    n = [0]

    def ret_expr(blocks):
        # value of _0 at the end of the path, resolved path-sensitively
        if not any(d[2] == () and d[0] in blocks for d in fn.defs().get(0, [])):
            return None
        return fn.expr_on_path([0], blocks)

    def walk(bb, blocks, conds, onpath):
        if n[0] >= max_paths:
            return
        blocks = blocks + [bb]
        t = fn.blocks[bb]["t"]
        k = t[0]
        if k == "ret":
            n[0] += 1
            paths.append({"conds": conds, "ret": ret_expr(blocks), "blocks": blocks, "diverges": False})
            return
        succ = fn.succ(bb)
        if not succ:
            n[0] += 1
            paths.append({"conds": conds, "ret": None, "blocks": blocks, "diverges": True})
            return
        if k == "switch":
            cond = fn.expr_on_path(t[1], blocks)
            is_flag = ignore_drop_flags and _is_drop_flag(fn, t[1])
            vals = [int(v) for v, _ in t[2]]
            for tgt, lab in succ:
                if tgt in onpath:
                    continue
                if is_flag:
                    walk(tgt, blocks, conds, onpath | {bb})
                else:
                    l = lab[1] if lab[0] == "val" else ("otherwise", tuple(vals))
                    walk(tgt, blocks, conds + [(cond, l, t[4])], onpath | {bb})
            return
        for tgt, lab in succ:
            if tgt in onpath:
                continue
            walk(tgt, blocks, conds, onpath | {bb})

    walk(0, [], [], frozenset())
    for p in paths:
        p["calls"] = [fn.call_in_block(b) for b in p["blocks"] if fn.call_in_block(b) is not None]
    return paths


def _is_drop_flag(fn, op):
    """Drop flags are bool locals assigned only constants."""
    if not isinstance(op, list) or len(op) != 1:
        return False
    n = op[0]
    if fn.locals[n][0] != "bool" or fn.locals[n][1] is not None:
        return False
    ds = fn.defs().get(n, [])
    if not ds:
        return False
    for (_bb, _si, proj, rv) in ds:
        if proj != () or not (isinstance(rv, list) and rv[0] == "use" and isinstance(rv[1], dict)):
            return False
    return True


def feasible(path):
    """Drop paths with contradictory conditions on the same expression."""
    seen = {}
    for cond, lab, _ty in path["conds"]:
        s = str(cond)
        if isinstance(lab, tuple):
            allowed = ("not", frozenset(lab[1]))
        else:
            allowed = ("is", lab)
        if s in seen:
            prev = seen[s]
            if prev[0] == "is" and allowed[0] == "is" and prev[1] != allowed[1]:
                return False
            if prev[0] == "is" and allowed[0] == "not" and prev[1] in allowed[1]:
                return False
            if prev[0] == "not" and allowed[0] == "is" and allowed[1] in prev[1]:
                return False
        else:
            seen[s] = allowed
    return True


def match_table(fn, prog, scrutinee_re, adt=None):
    """Map variant name -> list of result expressions for a `match` on an enum whose scrutinee matches scrutinee_re.
    '_' collects the wildcard/otherwise arm. Uses decision_table."""
    table = {}
    dmap = adt.discr_map() if adt is not None else None
    for p in decision_table(fn):
        if not feasible(p):
            continue
        key = None
        for cond, lab, ty in p["conds"]:
            if cond.k == "discr" and re.search(scrutinee_re, str(cond.a[0])):
                if isinstance(lab, tuple):
                    key = "_"
                else:
                    key = dmap.get(lab, str(lab)) if dmap else lab
                break
        if key is None:
            continue
        table.setdefault(key, [])
        r = p["ret"]
        if r is not None and str(r) not in [str(x) for x in table[key]]:
            table[key].append(r)
    return table


# ------------------------------------------------------------------ writes


def field_writes(fn, field_re):
    """Sites that (may) write a place whose projection path matches field_re:
    direct assignments, and `&mut` borrows of such a place (escapes: passed to calls, swapped, ...).
    Returns list of dict(bb, kind='assign'|'mutborrow', path=str, line=int, rv=E|None)."""
    out = []
    for bb, si, s in fn.statements():
        if s[0] not in ("=", "setdiscr") or fn.blocks[bb].get("cleanup"):
            continue
        pl = s[1]
        path = _place_path(fn, pl)
        if len(pl) > 1 and re.search(field_re, path):
            out.append({"bb": bb, "kind": "assign", "path": path, "line": fn.stmt_line(s),
                        "rv": fn._rvalue_expr(s[2], 0, ()) if s[0] == "=" else None})
        if s[0] == "=" and s[2][0] in ("ref", "rawptr") and s[2][1] in ("mut", "Mut"):
            p2 = _place_path(fn, s[2][2])
            if re.search(field_re, p2):
                out.append({"bb": bb, "kind": "mutborrow", "path": p2, "line": fn.stmt_line(s), "rv": None})
    for cs in fn.calls:
        d = cs.dest
        if len(d) > 1 and not fn.blocks[cs.bb].get("cleanup"):
            path = _place_path(fn, d)
            if re.search(field_re, path):
                out.append({"bb": cs.bb, "kind": "assign", "path": path, "line": cs.line, "rv": fn._call_expr(cs, 0, ())})
    return out


def _place_path(fn, pl):
    base = str(fn.local_expr(pl[0]))
    for p in pl[1:]:
        if p == "*":
            continue
        base += p
    return base


def writes_through_self(fn):
    """All stores/mut-borrows whose base is the `self` parameter (or a &mut parameter)."""
    out = []
    for w in field_writes(fn, r"."):
        root = w["path"].split(".")[0].split("[")[0].split("@")[0]
        if root in [fn.locals[i + 1][1] for i in range(fn.arg_count) if "&mut" in fn.locals[i + 1][0]] or root == "self":
            out.append(w)
    return out


def err_after(fn, bb):
    """Fallible (Err/None-constructing) exit blocks reachable from block bb on the normal CFG."""
    r = fn.reachable_from(bb)
    return sorted(b for b in fn.err_exit_blocks() if b in r and b != bb)


# ------------------------------------------------------------------ arithmetic / panics

ARITH = {"Add", "Sub", "Mul", "Div", "Rem", "Shl", "Shr", "AddWithOverflow", "SubWithOverflow", "MulWithOverflow",
         "AddUnchecked", "SubUnchecked", "MulUnchecked", "ShlUnchecked", "ShrUnchecked"}
INT_BITS = {"u8": 8, "u16": 16, "u32": 32, "u64": 64, "u128": 128, "usize": 64,
            "i8": 8, "i16": 16, "i32": 32, "i64": 64, "i128": 128, "isize": 64}


def arith_sites(fn, include_expansion=False):
    """Raw arithmetic statements: list of dict(bb, op, a, b, ty, line, mac)."""
    out = []
    for bb, si, s in fn.statements():
        if s[0] != "=" or s[2][0] != "bin" or s[2][1] not in ARITH:
            continue
        mac = s[4] if len(s) > 4 else []
        if mac and not include_expansion and any(m in ("debug_assert", "debug_assert_eq", "msg", "format_args", "assert_eq", "assert") or m.endswith("msg") for m in mac):
            continue
        rv = s[2]
        out.append({"bb": bb, "op": rv[1].replace("WithOverflow", ""), "checked_by_assert": rv[1].endswith("WithOverflow"),
                    "a": fn.expr(rv[2]), "b": fn.expr(rv[3]), "ty": rv[4] if len(rv) > 4 else "", "line": fn.stmt_line(s), "mac": mac})
    return out


def cast_sites(fn):
    """`as` casts between integer types: dict(bb, from, to, kind, narrowing, sign_change, e, line)."""
    out = []
    for bb, si, s in fn.statements():
        if s[0] != "=" or s[2][0] != "cast":
            continue
        rv = s[2]
        if rv[1] not in ("IntToInt", "FloatToInt", "IntToFloat"):
            continue
        to, frm = rv[3], rv[4] if len(rv) > 4 else "?"
        narrowing = INT_BITS.get(to, 0) < INT_BITS.get(frm, 0)
        sign = (to[:1] != frm[:1]) and to in INT_BITS and frm in INT_BITS
        widening_lossy = sign and frm.startswith("i")  # iN -> uM loses sign
        out.append({"bb": bb, "from": frm, "to": to, "kind": rv[1], "narrowing": narrowing,
                    "sign_change": sign, "e": fn.expr(rv[2]), "line": fn.stmt_line(s), "mac": s[4] if len(s) > 4 else []})
    return out


PANIC_CALLS = re.compile(r"(Option::unwrap(?![a-z_])|Option::expect(?![a-z_])|Result::unwrap(?![a-z_])|Result::expect(?![a-z_])|Result::unwrap_err(?![a-z_])|"
                         r"panicking::|Index::index|IndexMut::index_mut|copy_from_slice|::pow$|ilog10|ilog2|"
                         r"unreachable|slice_index|unwrap_failed|expect_failed|begin_panic)")


def panic_sites(fn, include_expansion=False):
    """Potential panic sites: asserts (overflow/bounds/div-by-zero), diverging calls, unwrap/expect/index calls."""
    out = []
    for i, b in enumerate(fn.blocks):
        if b.get("cleanup"):
            continue
        t = b["t"]
        mac = b.get("mac", [])
        if mac and not include_expansion and any(m in ("debug_assert", "debug_assert_eq", "debug_assert_ne") for m in mac):
            continue
        if t[0] == "assert":
            out.append({"bb": i, "kind": "assert:" + t[3], "line": b.get("line", 0), "mac": mac})
        elif t[0] == "call":
            c = t[1]
            nm = c.get("resolved") or c.get("callee") or ""
            sh = short_path(c.get("callee")) if c.get("callee") else ""
            if c.get("target") is None:
                out.append({"bb": i, "kind": "diverge:" + sh, "line": b.get("line", 0), "mac": mac})
            elif PANIC_CALLS.search(sh) or PANIC_CALLS.search(nm):
                out.append({"bb": i, "kind": "call:" + sh, "line": b.get("line", 0), "mac": mac, "cs": fn.call_in_block(i)})
    return out


# ------------------------------------------------------------------ call graph helpers


def reaches_calls(prog, roots, follow_crates=None, stop_re=None):
    """Short names of all callees reachable from roots through local bodies (transitively).
    follow_crates: only descend into functions of these crates. stop_re: do not descend into callees matching."""
    seen = {}
    names = {}
    stack = list(roots)
    while stack:
        f = stack.pop()
        if f.id in seen:
            continue
        seen[f.id] = f
        for cs in f.calls:
            names.setdefault(cs.short, []).append(cs)
            if stop_re and re.search(stop_re, cs.name or ""):
                continue
            for g in prog.callees(cs):
                if g.id not in seen and (follow_crates is None or g.crate in follow_crates):
                    stack.append(g)
        for c in prog.closures_of(f):
            if c.id not in seen:
                stack.append(c)
    return names, seen


def const_bool(e):
    """E -> True/False/None"""
    if e.k == "const" and e.a[0] in ("true", "false"):
        return e.a[0] == "true"
    return None


def bool_shape(e):
    """Describe a boolean argument: 'true'|'false'|'<name>'|'!<name>'|'(a ^ b)'|str(e)"""
    cb = const_bool(e)
    if cb is not None:
        return "true" if cb else "false"
    if e.k == "un" and e.a[0] == "Not":
        return "!" + bool_shape(e.a[1])
    if e.k == "bin" and e.a[0] == "BitXor":
        return "(%s ^ %s)" % (bool_shape(e.a[1]), bool_shape(e.a[2]))
    return str(e)


# ------------------------------------------------------------------ type-aware field writes (A3a who-may-write)

def _adt_of_type(prog, ty):
    """`&'a mut path::Adt<..>` -> Adt object or None"""
    t = ty.strip()
    while True:
        m = re.match(r"^&(?:'[a-z_]+ )?(?:mut )?(.*)$", t)
        if m:
            t = m.group(1).strip()
            continue
        m = re.match(r"^(?:std::boxed::Box|std::cell::RefMut|std::cell::Ref)<(?:'[a-z_]+, )?(.*)>$", t)
        if m:
            t = m.group(1).strip()
            continue
        break
    base = re.sub(r"<.*$", "", t)
    return prog.adts.get(base)


def place_field_owners(prog, fn, place):
    """For place [local, proj...]: list of (proj_index, owner_adt_id, field_name) for each field projection whose
    owner type could be resolved through the ADT tables."""
    out = []
    ty = fn.locals[place[0]][0]
    adt = _adt_of_type(prog, ty)
    for i, p in enumerate(place[1:]):
        if p == "*":
            continue
        if p.startswith(".") and adt is not None:
            name = p[1:]
            out.append((i, adt.id, name))
            nxt = None
            for v in adt.variants:
                for f in v["fields"]:
                    if f["name"] == name:
                        nxt = f["ty"]
            adt = _adt_of_type(prog, nxt) if nxt else None
        elif p.startswith("@") or p.startswith("["):
            if p.startswith("["):
                adt = None
        else:
            adt = None
    return out


def writers_of_field(prog, adt_re, field, crates=None):
    """All functions that store to (or mutably borrow) field `field` of an ADT whose id matches adt_re.
    Returns list of dict(fn, bb, kind, line, value E|None)."""
    out = []
    for f in prog.fns.values():
        if crates and f.crate not in crates:
            continue
        for bb, si, s in f.statements():
            if s[0] != "=" or f.blocks[bb].get("cleanup"):
                continue
            tgt = None
            if any(p == "." + field for p in s[1][1:]):
                tgt = ("assign", s[1])
            elif s[2][0] in ("ref", "rawptr") and s[2][1] in ("mut", "Mut") and any(p == "." + field for p in s[2][2][1:]):
                tgt = ("mutborrow", s[2][2])
            if not tgt:
                continue
            owners = place_field_owners(prog, f, tgt[1])
            # the write hits `field` itself or something inside it
            hit = [o for o in owners if o[2] == field and re.search(adt_re, o[1])]
            if not hit:
                continue
            out.append({"fn": f, "bb": bb, "kind": tgt[0], "line": f.stmt_line(s),
                        "value": f._rvalue_expr(s[2], 0, ()) if tgt[0] == "assign" else None})
        for cs in f.calls:
            d = cs.dest
            if any(p == "." + field for p in d[1:]):
                owners = place_field_owners(prog, f, d)
                if [o for o in owners if o[2] == field and re.search(adt_re, o[1])]:
                    out.append({"fn": f, "bb": cs.bb, "kind": "assign", "line": cs.line, "value": f._call_expr(cs, 0, ())})
    return out
