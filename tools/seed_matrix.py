#!/usr/bin/env python3
"""tools/seed_matrix.py [seed-id ...] — run ALL property rules (in process) on a scratch worktree with each kept seed
applied; record in seeded/MATRIX.json whether the seed's own property check fires (detected), only another check
fires (detected-by-other), or none (missed), with the keys."""
import json, os, subprocess, sys
V = "/verif"
mp = V + "/seeded/MATRIX.json"
ids = sys.argv[1:] or sorted(d for d in os.listdir(V + "/seeded") if os.path.isdir(V + "/seeded/" + d))
for s in ids:
    prop = s.split("-")[0]
    out = "/tmp/seedmatrix-%s.json" % s
    r = subprocess.run([V + "/tools/patch_matrix.py", "--props", "all", "--out", out, V + "/seeded/%s/patch.diff" % s],
                       stdout=subprocess.PIPE, stderr=subprocess.STDOUT, text=True)
    try:
        res = list(json.load(open(out)).values())[0]
    except Exception:
        res = {"_error": r.stdout[-300:]}
    m = json.load(open(mp)) if os.path.exists(mp) else {}
    old = m.get(s, {})
    if "_error" in res:
        status, keys = "error", []
    elif prop in res:
        status, keys = "detected", res[prop]
    elif res:
        status, keys = "detected-by-other", []
    else:
        status, keys = "missed", []
    ent = {"status": status, "check": prop, "keys": keys[:8], "all": {k: v[:4] for k, v in res.items()}}
    if old.get("note"):
        ent["note"] = old["note"]
    m[s] = ent
    json.dump(m, open(mp, "w"), indent=1, sort_keys=True)
    print(s, status, {k: v[:2] for k, v in res.items()}, flush=True)
    os.remove(out) if os.path.exists(out) else None
