#!/usr/bin/env python3
"""tools/seed_matrix.py [seed-id ...] — run each kept seed's property check on a scratch worktree with the seeded
change applied; record detected/missed + the violation keys in seeded/MATRIX.json."""
import json, os, re, subprocess, sys
V = "/verif"
mp = V + "/seeded/MATRIX.json"
ids = sys.argv[1:] or sorted(d for d in os.listdir(V + "/seeded") if os.path.isdir(V + "/seeded/" + d))
for s in ids:
    prop = s.split("-")[0]
    env = dict(os.environ, TRY_LINES="40")
    r = subprocess.run([V + "/tools/try_patch.sh", V + "/seeded/%s/patch.diff" % s, prop], stdout=subprocess.PIPE,
                       stderr=subprocess.STDOUT, text=True, env=env)
    keys = re.findall(r"^\s*FAIL (\S+)", r.stdout, re.M)
    ran = re.search(r"^\[%s\]" % prop, r.stdout, re.M) is not None
    status = "detected" if keys else ("missed" if ran else "error")
    m = json.load(open(mp)) if os.path.exists(mp) else {}
    m[s] = {"status": status, "keys": keys[:8], "check": prop}
    if status == "error":
        m[s]["output"] = r.stdout[-400:]
    json.dump(m, open(mp, "w"), indent=1, sort_keys=True)
    print(s, status, keys[:4], flush=True)
