#!/bin/bash
# tools/verify_seed.sh <seed-id>   (reads /tmp/seed/out/<id>/{patch.diff,demo.diff,meta.json}; writes verify.json there)
# 1. patch applies + existing test-suite still passes (only the always-fail network tests fail)
# 2. demo fails with the patch, passes without it.
set -u
ID=$1
OUT=/tmp/seed/out/$ID
WT=${VWT:-/tmp/seed/verify-wt}
VT=${VTARGET:-/tmp/seed/vtarget}
export CARGO_TARGET_DIR=$VT CARGO_NET_OFFLINE=true
[ -d $VT ] || cp -a /repo/target $VT
[ -d $WT ] || git -C /repo worktree add --detach -q $WT HEAD
cd $WT && git checkout -q --detach $(git -C /repo rev-parse HEAD) && git reset -q --hard && git clean -fdq
ALWAYS="test_parse_url_or_path|create_deposit_with_rpc|create_glv_deposit_with_rpc|create_glv_withdrawal_with_rpc|create_order_with_rpc|create_withdrawal_with_rpc|get_token_accounts_by_owner|send_request"
res() { python3 - "$@" <<'PY'
import json,sys
out,key,val=sys.argv[1],sys.argv[2],sys.argv[3]
try: d=json.load(open(out))
except Exception: d={}
d[key]=val
json.dump(d,open(out,'w'),indent=1)
PY
}
rm -f $OUT/verify.json
git apply $OUT/patch.diff || { res $OUT/verify.json patch_applies no; exit 1; }
res $OUT/verify.json patch_applies yes
cargo test ${SUITE_ARGS:---workspace} --no-fail-fast --offline > $OUT/suite.log 2>&1; res $OUT/verify.json suite_args "${SUITE_ARGS:---workspace}"
if grep -q "^error\(\[E[0-9]*\]\)\?:" $OUT/suite.log && ! grep -q "test result" $OUT/suite.log; then res $OUT/verify.json compiles no; exit 1; fi
if grep -E "^error(\[E[0-9]+\])?: " $OUT/suite.log | grep -vq "test failed\|targets failed"; then res $OUT/verify.json compiles "no: $(grep -E '^error' $OUT/suite.log | grep -v 'test failed\|targets failed' | head -3 | tr '\n' ' ')"; exit 1; fi
res $OUT/verify.json compiles yes
BAD=$(grep -E "^test .* \.\.\. FAILED" $OUT/suite.log | grep -Ev "$ALWAYS" | tr '\n' ';')
NPASS=$(grep -E "^test result:" $OUT/suite.log | sed -E 's/.* ([0-9]+) passed.*/\1/' | paste -sd+ | bc)
res $OUT/verify.json suite_unexpected_failures "${BAD:-none}"
res $OUT/verify.json suite_passed "$NPASS"
# demo with bug
git apply $OUT/demo.diff || { res $OUT/verify.json demo_applies no; exit 1; }
DEMO=$(python3 -c "import json;print(json.load(open('$OUT/meta.json'))['demo_cmd'])" | sed -E 's#cd /tmp/seed/[A-Za-z0-9-]+ *&& *##; s#CARGO_TARGET_DIR=[^ ]+ ##; s#touch [^ ]+ *&& *##; s#CARGO_NET_OFFLINE=true ##')
echo "demo cmd: $DEMO" > $OUT/demo.log
bash -c "$DEMO" >> $OUT/demo.log 2>&1; RC1=$?
res $OUT/verify.json demo_with_bug_rc "$RC1"
git apply -R $OUT/patch.diff || { res $OUT/verify.json revert no; exit 1; }
bash -c "$DEMO" >> $OUT/demo.log 2>&1; RC2=$?
res $OUT/verify.json demo_without_bug_rc "$RC2"
git reset -q --hard && git clean -fdq
cat $OUT/verify.json
