#!/bin/bash
# tools/seed_queue.sh id... : sequentially verify -> keep -> run all checks on each seed
cd /verif
for s in "$@"; do
  echo "### $s verify"; tools/verify_seed.sh $s > /tmp/seed/verify_$s.log 2>&1
  tools/keep_seed.sh $s 2>&1 | cut -c1-120
  if [ -d seeded/$s ]; then tools/seed_matrix.py $s 2>&1 | tail -1 | cut -c1-400; fi
done
