#!/bin/bash
# tools/round3_wrap.sh : end-of-session wrap-up for the round-3 seeds (keeps verified ones, parks the rest, commits).
cd /verif
KEPT=""
for s in C38-2 C39-2 C14-2 C10-2 C30-2 C11-2 C13-2; do
  v=/tmp/seed/out/$s/verify.json
  if [ -f $v ] && grep -q '"demo_without_bug_rc": "0"' $v && grep -q '"suite_unexpected_failures": "none"' $v && ! grep -q '"demo_with_bug_rc": "0"' $v; then
    tools/keep_seed.sh $s >> .cache/round3_keep.log 2>&1
    KEPT="$KEPT $s"
  elif [ -f /tmp/seed/out/$s/patch.diff ]; then
    mkdir -p tools/pending_seeds/$s
    cp /tmp/seed/out/$s/patch.diff /tmp/seed/out/$s/demo.diff /tmp/seed/out/$s/meta.json tools/pending_seeds/$s/ 2>/dev/null
    [ -f $v ] && cp $v tools/pending_seeds/$s/verify.partial.json
  fi
done
cp .cache/pm_r3a.log tools/pending_seeds/matrix_r3a.log 2>/dev/null
cp .cache/pm_r3b.log tools/pending_seeds/matrix_r3b.log 2>/dev/null
echo "kept:$KEPT" > tools/pending_seeds/STATUS.txt
git add -A seeded tools DESIGN.md >/dev/null 2>&1
git commit -q -m "round-3 seeds: keep verified ($KEPT ), park unverified candidates under tools/pending_seeds; verify_seed.sh SUITE_ARGS" 2>&1 | tail -1
git log --oneline | head -1
