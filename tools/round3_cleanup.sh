#!/bin/bash
# tools/round3_cleanup.sh : stop scratch builds, record last results, commit, remove scratch worktrees/targets.
cd /verif
for p in $(pgrep -f 'tools/verify_seed[.]sh|tools/patch_matrix[.]py'); do kill $p 2>/dev/null; done
pkill -x cargo; pkill -x rustc
sed -i 's#| matrix run (C30) still extracting | pending |#| **detected** by C30 `cost-provenance:mint_to:argument` | pending |#' DESIGN.md
cp .cache/pm_r3b.log tools/pending_seeds/matrix_r3b.log 2>/dev/null
if [ -f /tmp/seed/out/C13-2/patch.diff ]; then mkdir -p tools/pending_seeds/C13-2; cp /tmp/seed/out/C13-2/*.diff /tmp/seed/out/C13-2/*.json tools/pending_seeds/C13-2/ 2>/dev/null; fi
git add -A DESIGN.md tools >/dev/null 2>&1
git commit -q -m "design §10: C30-2 detection result; pending seed logs; cleanup script"
git log --oneline | head -1
for w in $(git -C /repo worktree list | awk 'NR>1{print $1}'); do git -C /repo worktree remove --force $w; done
rm -rf /tmp/seed/target-* /tmp/seed/vwt-* /tmp/seed/C*-2 /var/tmp/gmxsa-pm-* /verif/.cache/facts-pm-*
git -C /repo worktree prune
git -C /repo status --short | head -3
df -h / | tail -1
