#!/usr/bin/env python3
import glob, json, os, sys
sys.path.insert(0, "/verif")
from gmxsa.props import PROPS, NOT_APPLICABLE
for f in glob.glob("/verif/gmxsa/props.d/C*.json"):
    PROPS[os.path.basename(f)[:-5]] = json.load(open(f))
ids = [json.loads(l)["id"] for l in open("/verif/properties.jsonl")]
kf = json.load(open("/verif/known-findings.json")) if os.path.exists("/verif/known-findings.json") else {}
INTEGRATED = set(open("/verif/gmxsa/INTEGRATED").read().split())
checks, na = [], []
for i in ids:
    if i in INTEGRATED and i in PROPS and os.path.exists("/verif/gmxsa/rules/%s.py" % i) and i not in NOT_APPLICABLE:
        p = PROPS[i]
        checks.append({
            "property_id": i,
            "quick_cmd": "./check %s --tier quick" % i,
            "thorough_cmd": "./check %s --tier thorough" % i,
            "evidence_file": "/verif/evidence/%s.json" % i,
            "replay_cmd_template": "./check %s --replay {path}" % i,
            "engine": "gmxsa",
            "level_claimed": {"category": "other", "text": p["text"], "design_ref": "DESIGN.md §5 " + i},
            "level_note": p["note"],
            "technique": "static analysis: " + p["technique"],
        })
    else:
        na.append({"property_id": i, "reason": NOT_APPLICABLE.get(i, "no static check built yet for this property (work in progress); nothing is claimed")})
m = {
    "version": 1,
    "setup_cmd": "./setup.sh",
    "hooks": {
        "guard": "gmxsa_verif",
        "enable": "not used: the analysis reads the compiler's view (MIR/HIR) of the unmodified source; no instrumentation is compiled in",
        "baseline_off_cmd": "cd /repo && cargo test --workspace --no-fail-fast --offline",
        "source_commits": [],
        "add_only": True,
    },
    "engines": [{"name": "gmxsa", "path": "/verif/check", "serves_properties": [c["property_id"] for c in checks],
                 "kind_free_text": "rustc_private fact extractor (driver/) run as RUSTC_WORKSPACE_WRAPPER under cargo +nightly check on /repo's current tree + Python rule engine over resolved MIR (gmxsa/)"}],
    "checks": checks,
    "not_applicable": na,
    "notes": "No hooks: hooks.source_commits is empty. Genuine defects repaired in /repo by unguarded `fix:` commits " + ", ".join(kf.get("fix_commits", [])) + " (recorded as `fixed:` in known-findings.json). Technique family: static analysis only. Every check re-extracts facts from /repo's working tree when its source digest changed (fail closed otherwise).",
}
json.dump(m, open("/verif/MANIFEST.json", "w"), indent=1)
print("checks:", len(checks), "not_applicable:", len(na))
