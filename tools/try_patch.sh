#!/bin/bash
# usage: tools/try_patch.sh <patch.diff> <Cxx> [Cyy ...]   — run checks against a scratch worktree of /repo with the patch applied
set -u
P=$(realpath "$1"); shift
WT=/var/tmp/gmxsa-wt-$$
git -C /repo worktree add --detach -q "$WT" HEAD || exit 3
trap 'git -C /repo worktree remove --force "$WT" >/dev/null 2>&1; rm -rf /verif/.cache/facts-*' EXIT
git -C "$WT" apply "$P" || { echo "PATCH DOES NOT APPLY"; exit 3; }
rc=0
for c in "$@"; do
  GMXSA_REPO="$WT" /verif/check "$c" 2>&1 | grep -E "^\[C|FAIL|VIOLATION|KNOWN|gmxsa:|error" | head -${TRY_LINES:-12}
done
