#!/bin/bash
# usage: tools/try_patch.sh <patch.diff> <Cxx> [Cyy ...]
# Runs the named checks against a scratch worktree of /repo (HEAD + uncommitted nothing) with the patch applied.
# /repo itself is never touched. The worktree and its facts are removed afterwards.
set -u
P=$(realpath "$1"); shift
WT=/var/tmp/gmxsa-wt-$$
git -C /repo worktree add --detach -q "$WT" HEAD || exit 3
FD=/verif/.cache/facts-$(python3 -c "import hashlib,os,sys;print(hashlib.sha1(os.path.realpath(sys.argv[1]).encode()).hexdigest()[:10])" "$WT")
trap 'git -C /repo worktree remove --force "$WT" >/dev/null 2>&1; rm -rf "$FD"' EXIT
git -C "$WT" apply "$P" || { echo "PATCH DOES NOT APPLY"; exit 3; }
for c in "$@"; do
  GMXSA_REPO="$WT" /verif/check "$c" 2>&1 | grep -E "^\[C|FAIL|VIOLATION|KNOWN|gmxsa:|^error|panicked" | head -${TRY_LINES:-14}
done
