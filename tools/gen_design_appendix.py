#!/usr/bin/env python3
"""Regenerate Appendix A of DESIGN.md from evidence/, controls/, seeded/ and the seed matrix results."""
import glob, json, os, re
V = "/verif"
ids = [json.loads(l)["id"] for l in open(V + "/properties.jsonl")]
titles = {json.loads(l)["id"]: json.loads(l)["title"] for l in open(V + "/properties.jsonl")}
matrix = json.load(open(V + "/seeded/MATRIX.json")) if os.path.exists(V + "/seeded/MATRIX.json") else {}
out = ["## Appendix A. As-built summary per property (generated — do not edit by hand)\n"]
for i in ids:
    ev = V + "/evidence/%s.json" % i
    out.append("### %s %s\n" % (i, titles[i]))
    if not os.path.exists(ev) or not os.path.exists(V + "/gmxsa/rules/%s.py" % i):
        out.append("not claimed (see §6).\n")
        continue
    e = json.load(open(ev))
    c = e["coverage"]
    out.append("*Decides:* %s\n" % c.get("explanation", "").strip())
    if c.get("not_decided"):
        out.append("*Not decided:* %s\n" % c["not_decided"].strip())
    out.append("*Last run:* %d obligations over %d functions (%s); rule families:\n" % (
        c.get("obligations", 0), c.get("functions_analysed", 0), ", ".join(c.get("crates_loaded", []))))
    rc = c.get("rule_instances", {})
    for r in c.get("rules", []):
        out.append("- `%s` (%d): %s" % (r["id"], rc.get(r["id"], 0), r["rule"]))
    exp = V + "/controls/%s/EXPECT" % i
    if os.path.exists(exp):
        out.append("\n*Positive controls (thorough tier):*")
        for line in open(exp):
            line = line.strip()
            if line and not line.startswith("#"):
                n, rx = line.split(None, 1)
                out.append("- `%s` → key `/%s/`" % (n, rx))
    seeds = sorted(glob.glob(V + "/seeded/%s-*" % i))
    if seeds:
        out.append("\n*Independently seeded changes:*")
        for sd in seeds:
            sid = os.path.basename(sd)
            m = json.load(open(sd + "/meta.json"))
            r = matrix.get(sid, {})
            out.append("- `%s`: %s — **%s**%s" % (sid, m.get("summary", "")[:300].replace("\n", " "),
                       r.get("status", "not yet run"), (" by " + ", ".join("`%s`" % k for k in r.get("keys", [])[:4])) if r.get("keys") else ""))
            if r.get("note"):
                out.append("  (%s)" % r["note"])
    out.append("")
txt = "\n".join(out) + "\n"
p = V + "/DESIGN.md"
s = open(p).read()
k = s.find("## Appendix A.")
if k >= 0:
    s = s[:k]
s = s.rstrip("\n") + "\n\n" + txt
open(p, "w").write(s)
print("appendix written:", len(txt.splitlines()), "lines")
