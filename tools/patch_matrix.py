#!/usr/bin/env python3
"""tools/patch_matrix.py [--props C01,C02|all] [--together] PATCH...

Apply each patch (or all of them together) to a scratch worktree of /repo, extract facts once per tree and run the
named property rules IN PROCESS against it. Prints, per patch, the violation keys per property. Used for
 * benign refactors (expected: no violation anywhere)  and
 * seeded changes run against every property (which checks notice a given change).
Writes a JSON summary to --out if given."""
import importlib
import json
import os
import shutil
import subprocess
import sys

sys.path.insert(0, "/verif")
from gmxsa import facts, report  # noqa: E402
from gmxsa.report import Ctx  # noqa: E402


def git(args, cwd, check=True, inp=None):
    return subprocess.run(["git"] + args, cwd=cwd, stdout=subprocess.PIPE, stderr=subprocess.STDOUT, text=True,
                          check=check, input=inp)


def main(argv):
    props = None
    together = False
    out = None
    patches = []
    i = 1
    while i < len(argv):
        a = argv[i]
        if a == "--props":
            props = argv[i + 1]
            i += 2
        elif a == "--together":
            together = True
            i += 1
        elif a == "--out":
            out = argv[i + 1]
            i += 2
        else:
            patches.append(os.path.abspath(a))
            i += 1
    all_props = sorted(f[:-3] for f in os.listdir("/verif/gmxsa/rules") if f.startswith("C") and f.endswith(".py"))
    props = all_props if not props or props == "all" else props.split(",")
    wt = "/var/tmp/gmxsa-pm-%d" % os.getpid()
    fd = os.path.join(facts.CACHE, "facts-pm-%d" % os.getpid())
    git(["worktree", "add", "--detach", "-q", wt, "HEAD"], "/repo")
    summary = {}
    try:
        groups = [patches] if together else [[p] for p in patches]
        for grp in groups:
            name = "+".join(os.path.basename(os.path.dirname(p)) + "/" + os.path.basename(p) for p in grp) if len(grp) < 4 else "%d patches" % len(grp)
            bad = False
            for p in grp:
                r = git(["apply", "--whitespace=nowarn", p], wt, check=False)
                if r.returncode != 0:
                    print("PATCH DOES NOT APPLY: %s %s" % (p, r.stdout[-200:]))
                    bad = True
            res = {}
            if not bad:
                try:
                    facts.ensure(repo=wt, facts_dir=fd)
                except SystemExit as e:
                    print("== %s: does not compile/extract: %s" % (name, e))
                    res = {"_error": str(e)}
                else:
                    for k in [k for k in report._PROG_CACHE if k[0] == fd]:
                        del report._PROG_CACHE[k]
                    for pr in props:
                        mod = importlib.import_module("gmxsa.rules." + pr)
                        sub = Ctx(pr, "quick", 0, facts_dir=fd, scratch=True)
                        sub.guard("module", mod.run, sub)
                        keys = [v["key"] for v in sub.violations]
                        if keys:
                            res[pr] = keys[:10]
                    print("== %s: %s" % (name, json.dumps(res) if res else "no violation in %d properties" % len(props)), flush=True)
            summary[name] = res
            git(["checkout", "-q", "--", "."], wt, check=False)
            git(["clean", "-fdq"], wt, check=False)
    finally:
        git(["worktree", "remove", "--force", wt], "/repo", check=False)
        shutil.rmtree(wt, ignore_errors=True)
        shutil.rmtree(fd, ignore_errors=True)
    if out:
        json.dump(summary, open(out, "w"), indent=1, sort_keys=True)


if __name__ == "__main__":
    main(sys.argv)
