"""Generate the DRAFT of tables/C19.json from today's tree (then reviewed by hand; reasons edited)."""
import sys,re,json; sys.path.insert(0,'/verif')
from gmxsa.model import Program
from gmxsa import anchor
PROGS=['gmsol_store','gmsol_treasury','gmsol_timelock','gmsol_liquidity_provider','gmsol_competition']
p=Program(PROGS+['gmsol_utils'])
out={"gated_roles":{}, "non_gated":{}, "constraints":{}}
for cr in PROGS:
    for e in anchor.entrypoints(p,cr):
        key=cr+"::"+e.name
        acc=e.accounts()
        if acc is not None:
            facts=[f for f in acc.facts() if re.match(r"(signer|has_one|constraint|seeds|seeds_program|close|address|owner|token::authority|associated_token::authority|zero|init|init_if_needed):",f)]
            out["constraints"].setdefault(acc.adt.id, sorted(set(facts)))
        g=anchor.gate_of(e.user)
        if g:
            out["gated_roles"][key]=anchor.role_of_gate(p,g)
            continue
        signers=acc.signers() if acc else []
        muts=[f['name'] for f in acc.fields if acc.is_mut(f)] if acc else []
        first=[c for c in e.user.calls if c.short not in anchor.TRIVIAL_CALLS]
        if not muts:
            cls="read_only"
        elif first and first[0].short=="Close::close":
            cls="close_delegating"
        elif signers:
            cls="signer_bound"
        else:
            cls="permissionless"
        anchors=[]
        if acc:
            bound=set(signers)
            changed=True
            fs=acc.facts()
            while changed:
                changed=False
                for f in fs:
                    m=re.match(r"has_one:(\w+)->(\w+)",f)
                    if m and m.group(2) in bound and m.group(1) not in bound: bound.add(m.group(1)); changed=True
                    m=re.match(r"seeds:(\w+)<-(.*)",f)
                    if m and set(m.group(2).split(','))&bound and m.group(1) not in bound: bound.add(m.group(1)); changed=True
            for f in fs:
                if re.match(r"(has_one|constraint|seeds|close|address|token::authority|associated_token::authority):",f) and any(re.search(r"\b%s\b"%s,f) for s in signers):
                    anchors.append(f)
        out["non_gated"][key]={"class":cls,"signer":signers[0] if signers else None,"anchors":anchors,"reason":(e.user.docs.strip().splitlines() or [''])[0].strip()}
json.dump(out,open('/verif/tables/C19.draft.json','w'),indent=1)
print(len(out["gated_roles"]),len(out["non_gated"]),len(out["constraints"]))
import collections
print(collections.Counter(v["class"] for v in out["non_gated"].values()))

# ---- manual review overrides (read against the source; one reason each)
OV = {
 "gmsol_store::initialize": ("permissionless", "store PDA is `init` from the key; the signing authority becomes its admin; nothing existing is modified", ["init:store"]),
 "gmsol_store::initialize_token_map": ("permissionless", "creates a fresh (init) token map account paid by the signer", ["init:token_map"]),
 "gmsol_store::initialize_oracle": ("permissionless", "initialises a zeroed oracle account and records the given authority; nothing existing is modified", ["zero:oracle"]),
 "gmsol_store::prepare_associated_token_account": ("permissionless", "idempotently creates the ATA of `owner`, paid by the signer", ["associated_token::authority:account=owner"]),
 "gmsol_store::prepare_gt_exchange_vault": ("permissionless", "idempotently creates the current GT exchange vault PDA, paid by the signer", ["seeds:vault<-store"]),
 "gmsol_store::initialize_callback_authority": ("permissionless", "creates the singleton callback-authority PDA", ["init:callback_authority"]),
 "gmsol_store::initialize_market_config_buffer": ("permissionless", "creates a fresh buffer owned by the signer", ["init:buffer"]),
 "gmsol_store::claim_fees_from_market": ("handler_gated", "handler validates that the signer is the store's fee receiver before any effect", [], {"fn": r"gmsol_store::instructions::market::claim_fees_from_market", "gate": r"Store::validate_claim_fees_address"}),
 "gmsol_store::get_market_token_value": ("signer_bound", "read-only valuation; the oracle it temporarily fills must belong to the signer", ["has_one:oracle->authority"]),
 "gmsol_store::get_glv_token_value": ("signer_bound", "read-only valuation; the oracle it temporarily fills must belong to the signer", ["has_one:oracle->authority"]),
 "gmsol_store::settle_builder_fee": ("permissionless", "anyone may settle: moves at most the recorded builder fee from the order's escrow to the builder's claim vault (C32)", ["associated_token::authority:escrow=order", "associated_token::authority:claim_vault=builder_user", "has_one:builder_user->store"]),
 "gmsol_treasury::initialize_config": ("permissionless", "creates the treasury config PDA of a store (init)", ["init:config", "seeds:config<-store"]),
 "gmsol_treasury::complete_gt_exchange": ("handler_gated", "the first effect is the store CPI close_gt_exchange (signed by the config PDA) which validates owner/exchange/vault", [], {"fn": r"gt_bank::CompleteGtExchange::<'info>::execute", "gate": r"cpi::close_gt_exchange"}),
 "gmsol_timelock::initialize_executor": ("permissionless", "creates the executor PDA for a role name (init); approval/execution stay role gated", ["init:executor", "seeds:executor<-store"]),
 "gmsol_timelock::approve_instruction": ("handler_gated", "validate_timelocked_role (CPI check_role on TIMELOCKED_<role>) precedes the approval", ["has_one:instruction->executor", "has_one:executor->store"], {"fn": r"instruction_buffer::approve_instruction", "gate": r"instruction_buffer::validate_timelocked_role"}),
 "gmsol_timelock::approve_instructions": ("handler_gated", "validate_timelocked_role precedes every approval", ["has_one:executor->store"], {"fn": r"instruction_buffer::approve_instructions", "gate": r"instruction_buffer::validate_timelocked_role"}),
 "gmsol_liquidity_provider::initialize": ("permissionless", "creates the singleton global-state PDA (init) and records the signer as authority", ["init:global_state"]),
 "gmsol_liquidity_provider::calculate_gt_reward": ("permissionless", "computes a reward for a position without minting; mutates only the CPI scratch account", ["has_one:position->owner", "has_one:position->controller"]),
 "gmsol_competition::initialize_competition": ("permissionless", "creates a competition PDA seeded by the payer (init)", ["init:competition", "seeds:competition<-payer"]),
 "gmsol_competition::create_participant_idempotent": ("permissionless", "idempotently creates a participant PDA for (competition, trader), paid by the signer", ["seeds:participant<-competition,trader"]),
}
for k in ("on_created","on_updated","on_executed","on_closed"):
    OV["gmsol_competition::"+k]=("pda_signer_gated","callback: the `authority` signer must be the store program's callback-authority PDA",["seeds::program:authority=CALLER_PROGRAM_ID","seeds:authority<-"])
for k,v in OV.items():
    e=out["non_gated"][k]
    e["class"]=v[0]; e["reason"]=v[1]; e["anchors"]=v[2]
    if len(v)>3: e.update(v[3])
# validate that every anchor is a present fact
for k,e in out["non_gated"].items():
    cr,ix=k.split("::")
    ent=[x for x in anchor.entrypoints(p,cr) if x.name==ix][0]
    acc=ent.accounts()
    fs=set(acc.facts()) if acc else set()
    for a in e["anchors"]:
        assert a in fs, (k,a)
json.dump(out,open('/verif/tables/C19.json','w'),indent=1,sort_keys=True)
import collections
print(collections.Counter(v["class"] for v in out["non_gated"].values()))
