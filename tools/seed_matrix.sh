#!/bin/bash
# tools/seed_matrix.sh [seed-id ...]  — run each kept seed's property check against the seeded change (scratch worktree)
cd /verif
ids=${@:-$(ls seeded)}
for s in $ids; do
  p=${s%%-*}
  echo "=== $s ($p)"
  TRY_LINES=8 tools/try_patch.sh seeded/$s/patch.diff $p 2>&1 | grep -E "^\[C|FAIL|VIOLATION|PATCH|error" | head -8
done
