#!/bin/bash
# tools/keep_seed.sh <id>... : copy a verified seed from /tmp/seed/out into /verif/seeded and drop its worktree/target
for s in "$@"; do
python3 - $s <<'PY'
import json,sys,os,shutil
s=sys.argv[1]
v=json.load(open('/tmp/seed/out/%s/verify.json'%s))
ok = v.get('compiles')=='yes' and v.get('suite_unexpected_failures')=='none' and v.get('demo_with_bug_rc') not in ('0',None) and v.get('demo_without_bug_rc')=='0'
print(s,'verified' if ok else 'NOT VERIFIED',v)
if ok:
    os.makedirs('/verif/seeded/%s'%s,exist_ok=True)
    for f in ('patch.diff','demo.diff'): shutil.copy('/tmp/seed/out/%s/%s'%(s,f),'/verif/seeded/%s/%s'%(s,f))
    m=json.load(open('/tmp/seed/out/%s/meta.json'%s))
    m['verified_by_lead']={'how':'tools/verify_seed.sh: patch applied in a scratch worktree; cargo test --workspace --no-fail-fast --offline (only the 8 always-failing network tests fail); demo applied: fails with the patch, passes with only the patch reverted','result':v}
    json.dump(m,open('/verif/seeded/%s/meta.json'%s,'w'),indent=1)
PY
git -C /repo worktree remove --force /tmp/seed/$s 2>/dev/null; rm -rf /tmp/seed/target-$s
done
