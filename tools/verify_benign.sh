#!/bin/bash
# apply ALL benign refactors together in the verification worktree and run the full suite once
WT=/tmp/seed/verify-wt
export CARGO_TARGET_DIR=/tmp/seed/vtarget CARGO_NET_OFFLINE=true
cd $WT && git checkout -q --detach $(git -C /repo rev-parse HEAD) && git reset -q --hard && git clean -fdq
n=0; for p in /verif/controls/benign/*/r*.diff; do if git apply $p 2>/dev/null; then n=$((n+1)); else echo "does not apply together: $p"; fi; done
echo "applied $n patches"
cargo test --workspace --no-fail-fast --offline > /tmp/seed/benign_suite.log 2>&1
grep -E "^test .* \.\.\. FAILED" /tmp/seed/benign_suite.log | grep -Ev "test_parse_url_or_path|_with_rpc|get_token_accounts_by_owner|send_request"
grep -E "^error(\[E[0-9]+\])?: " /tmp/seed/benign_suite.log | grep -v "test failed\|targets failed" | head
echo "passed: $(grep -E '^test result:' /tmp/seed/benign_suite.log | sed -E 's/.* ([0-9]+) passed.*/\1/' | paste -sd+ | bc)"
git reset -q --hard && git clean -fdq
