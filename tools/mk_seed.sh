#!/bin/bash
# tools/mk_seed.sh Cxx n  -> prepares worktree /tmp/seed/Cxx-n, private target, prompt file
set -e
PID=$1; N=$2; ID=$PID-$N
git -C /repo worktree add --detach -q /tmp/seed/$ID HEAD
cp -a /repo/target /tmp/seed/target-$ID
python3 - "$PID" "$N" <<'PY'
import json,sys
pid,n=sys.argv[1],sys.argv[2]
props={json.loads(l)['id']:json.loads(l) for l in open('/verif/properties.jsonl')}
t=open('/verif/tools/seed_prompt.txt').read()
p=props[pid]
s=t.replace('{WT}','/tmp/seed/%s-%s'%(pid,n)).replace('{OUT}','/tmp/seed/out/%s-%s'%(pid,n)).replace('{ID}',pid).replace('{TITLE}',p['title']).replace('{STATEMENT}',p['statement']).replace('{QUANT}',p['quantifier']['text'])
s=s.replace('CARGO_TARGET_DIR=/tmp/seed/target ','CARGO_TARGET_DIR=/tmp/seed/target-%s-%s '%(pid,n)).replace('(shared warm target dir; other builds may hold its lock for a while — just wait)','(your private warm target dir)')
open('/tmp/seed/prompt_%s-%s.txt'%(pid,n),'w').write(s)
PY
echo prepared $ID
