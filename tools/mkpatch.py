#!/usr/bin/env python3
"""tools/mkpatch.py OUT.diff FILE OLD NEW [FILE OLD NEW ...] — build a unified diff against /repo without touching it.
OLD must occur exactly once in FILE (or use @N suffix on FILE to pick the Nth occurrence, 1-based)."""
import difflib, sys
out = sys.argv[1]
args = sys.argv[2:]
chunks = []
files = {}
for i in range(0, len(args), 3):
    f, old, new = args[i], args[i+1], args[i+2]
    nth = None
    if "@" in f:
        f, n = f.rsplit("@", 1); nth = int(n)
    src = files.get(f) or open("/repo/" + f).read()
    cnt = src.count(old)
    if cnt == 0 or (cnt != 1 and nth is None):
        sys.exit("OLD occurs %d times in %s" % (cnt, f))
    if nth is None:
        dst = src.replace(old, new)
    else:
        idx = -1
        for _ in range(nth):
            idx = src.index(old, idx + 1)
        dst = src[:idx] + new + src[idx+len(old):]
    files[f] = dst
txt = ""
for f, dst in files.items():
    src = open("/repo/" + f).read()
    txt += "".join(difflib.unified_diff(src.splitlines(True), dst.splitlines(True), "a/" + f, "b/" + f))
open(out, "w").write(txt)
print("wrote", out, len(txt.splitlines()), "lines")
