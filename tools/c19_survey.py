import sys,re,json; sys.path.insert(0,'/verif')
from gmxsa.model import Program
from gmxsa.accounts import AccountsStruct
PROGS=['gmsol_store','gmsol_treasury','gmsol_timelock','gmsol_liquidity_provider','gmsol_competition']
p=Program(PROGS+['gmsol_utils'])
def entrypoints(cr):
    out=[]
    for g in p.fns.values():
        if g.crate==cr and '::__private::__global::' in g.id and '{closure' not in g.id:
            user=None
            for cs in g.calls:
                if cs.callee and cs.callee in p.fns and '__private' not in cs.callee and cs.callee.rsplit('::',1)[-1]==g.name and p.fns[cs.callee].parent.count('::')==1:
                    user=p.fns[cs.callee]
            out.append((g,user))
    return out
for cr in PROGS:
    for g,u in sorted(entrypoints(cr), key=lambda x:x[1].line):
        first=u.calls[0].short if u.calls else None
        gated = first and (first.startswith('Authenticate::') or first=='CpiAuthenticate::only')
        if gated: continue
        m=re.search(r"Context<.*?, ([A-Za-z0-9_:]+)(?:<.*>)?>$", u.inputs[0])
        st=m.group(1) if m else None
        a=p.adts.get(st)
        print('==',cr,u.name,'|',st.split('::')[-1] if st else None,'|',(u.docs.strip().splitlines() or [''])[0])
        if a:
            s=AccountsStruct(a)
            muts=[f['name'] for f in s.fields if s.is_mut(f)]
            print('   signers',s.signers(),'mut',muts)
            for x in s.facts():
                if not x.startswith(('signer','associated_token::mint','token::mint','init','payer')): print('     ',x)
